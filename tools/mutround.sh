#!/bin/bash
# usage: tools/mutround.sh <worktree-prefix> <seeded-prefix> <PROP>...
# For each property: confirm the sub-agent's mutant in <worktree-prefix><PROP> (stores it
# as seeded/<seeded-prefix><PROP>, removes the worktree), then run the property's check
# against a scratch worktree with the patch applied. Prints one summary line each.
wtp="$1"; sp="$2"; shift 2
cd /verif || exit 2
for p in "$@"; do
  c=$(tools/confirm_mutant.sh "$wtp$p" "$sp$p" 2>&1 | tail -1)
  if [ "$c" != CONFIRMED ]; then echo "== $p: $c"; continue; fi
  MUTCHECK_SCRATCH=1 tools/mutcheck.sh seeded/$sp$p/patch.diff $p > /tmp/mutround-$p.log 2>&1
  echo "== $p: confirmed; $(grep -c '^VIOLATION' /tmp/mutround-$p.log) violations; $(grep -c SPURIOUS /tmp/mutround-$p.log) spurious; $(tail -1 /tmp/mutround-$p.log)"
  rm -f /tmp/mutround-$p.log
done
