#!/bin/bash
# usage: tools/confirm_mutant.sh <worktree> <seeded-id>
# Confirms a sub-agent's mutant in its scratch worktree (suite passes with the change; the
# demonstration fails with it and passes without), stores patch + demo under
# /verif/seeded/<id>/ and removes the worktree.
wt="$1"; id="$2"
export GOFLAGS= GOPROXY=off GOSUMDB=off GOTOOLCHAIN=local
cd "$wt" || exit 2
demo=$(git status --short | awk '/zz_demo_test.go/{print $2}' | head -1)
[ -n "$demo" ] || { echo "no demo test"; exit 2; }
pkgdir=$(dirname "$demo")
git diff > /tmp/confirm.$$.diff
[ -s /tmp/confirm.$$.diff ] || { echo "no change"; exit 2; }
mv "$demo" /tmp/confirm.$$.demo
ok=1
for m in ociregistry ociregistry/internal/conformance cmd/ocisrv; do
  if [ -f "$m/go.mod" ]; then
    (cd $m && go test -count=1 ./... > /tmp/confirm.$$.out 2>&1) || { echo "SUITE FAILS in $m with the change"; tail -20 /tmp/confirm.$$.out; ok=0; }
  fi
done
cp /tmp/confirm.$$.demo "$demo"
(cd "$pkgdir" && go test -count=1 -run 'Demo|ZZ' . > /tmp/confirm.$$.with 2>&1); with=$?
git apply -R /tmp/confirm.$$.diff
(cd "$pkgdir" && go test -count=1 -run 'Demo|ZZ' . > /tmp/confirm.$$.without 2>&1); without=$?
echo "suite_ok=$ok demo_with_change_exit=$with demo_without_change_exit=$without"
if [ $ok = 1 ] && [ $with != 0 ] && [ $without = 0 ]; then
  mkdir -p /verif/seeded/$id
  cp /tmp/confirm.$$.diff /verif/seeded/$id/patch.diff
  cp /tmp/confirm.$$.demo /verif/seeded/$id/zz_demo_test.go
  echo "$demo" > /verif/seeded/$id/demo_path.txt
  grep -E "^(---|\s+zz_demo|FAIL|ok)" /tmp/confirm.$$.with | head -8 > /verif/seeded/$id/demo_output_with_change.txt
  echo CONFIRMED
  res=0
else
  echo "NOT CONFIRMED"; tail -15 /tmp/confirm.$$.with; tail -5 /tmp/confirm.$$.without
  res=1
fi
rm -f /tmp/confirm.$$.*
cd /; git -C /repo worktree remove --force "$wt"
exit $res
