#!/bin/sh
# usage: tools/mutcheck.sh <patch.diff> <PROPERTY> [check args...]
# Applies the patch to /repo, runs the property's check, restores /repo. Prints the
# check's exit status; exits 0 iff the check reported a violation (exit 1).
patch="$1"; prop="$2"; shift 2
cd /verif || exit 2
if ! git -C /repo diff --quiet; then echo "/repo has uncommitted changes" >&2; exit 2; fi
case "$patch" in /*) ;; *) patch="/verif/$patch";; esac; git -C /repo apply "$patch" || { echo "patch does not apply" >&2; exit 2; }
cp evidence/$prop.json /tmp/mutcheck.$$.ev 2>/dev/null
./check "$prop" "$@" > /tmp/mutcheck.$$.out 2>&1
st=$?
[ -f /tmp/mutcheck.$$.ev ] && mv /tmp/mutcheck.$$.ev evidence/$prop.json
git -C /repo checkout -- . 
grep -E "^VIOLATION|HELD|INCONCLUSIVE|SPURIOUS" /tmp/mutcheck.$$.out | head -5
rm -f /tmp/mutcheck.$$.out
echo "check exit=$st"
[ "$st" = 1 ]
