#!/bin/sh
# usage: tools/mutcheck.sh <patch.diff> <PROPERTY> [check args...]
# Applies the patch to /repo, runs the property's check, restores /repo. Prints the
# check's exit status; exits 0 iff the check reported a violation (exit 1).
# With MUTCHECK_SCRATCH=1 the patch is applied to a scratch worktree of /repo under /tmp
# (removed afterwards) and the check is pointed at it with --repo, so that /repo itself
# stays untouched while other checks are running against it.
patch="$1"; prop="$2"; shift 2
cd /verif || exit 2
case "$patch" in /*) ;; *) patch="/verif/$patch";; esac
if [ -n "$MUTCHECK_SCRATCH" ]; then
  wt=/tmp/mutrepo.$$
  git -C /repo worktree add -q --detach "$wt" HEAD || exit 2
  git -C "$wt" apply "$patch" || { echo "patch does not apply" >&2; git -C /repo worktree remove --force "$wt"; exit 2; }
  repoarg="--repo $wt"
else
  if ! git -C /repo diff --quiet; then echo "/repo has uncommitted changes" >&2; exit 2; fi
  git -C /repo apply "$patch" || { echo "patch does not apply" >&2; exit 2; }
  repoarg=""
fi
cp evidence/$prop.json /tmp/mutcheck.$$.ev 2>/dev/null
./check "$prop" $repoarg "$@" > /tmp/mutcheck.$$.out 2>&1
st=$?
[ -f /tmp/mutcheck.$$.ev ] && mv /tmp/mutcheck.$$.ev evidence/$prop.json
if [ -n "$MUTCHECK_SCRATCH" ]; then
  git -C /repo worktree remove --force "$wt"
else
  git -C /repo checkout -- .
fi
grep -E "^VIOLATION|HELD|INCONCLUSIVE|SPURIOUS" /tmp/mutcheck.$$.out | head -5
rm -f /tmp/mutcheck.$$.out
echo "check exit=$st"
[ "$st" = 1 ]
