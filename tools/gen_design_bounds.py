#!/usr/bin/env python3
# Regenerates the per-property bounds block of DESIGN.md from harness/index.json.
import json, re
idx = json.load(open('/verif/harness/index.json'))
props = {json.loads(l)['id']: json.loads(l) for l in open('/verif/properties.jsonl')}
out = []
for pid in sorted(idx):
    out.append("### %s %s\n" % (pid, props[pid]['title']))
    for g in idx[pid]['groups']:
        q = g.get('quick', {}); t = g.get('thorough', q)
        nq = len(q.get('params') or [1]) * len(g['harnesses']); nt = len((t.get('params') or q.get('params')) or [1]) * len(g['harnesses'])
        hs = ", ".join("`%s`" % h for h in g['harnesses'])
        out.append("* %s (package `%s`; %d quick / %d thorough runs)  \n  **Bounds:** %s  \n  **Outside:** %s" % (hs, g['pkg'], nq, nt, g['bounds'], g.get('outside') or "—"))
    a = idx[pid].get('assumptions') or []
    if a:
        out.append("* **Assumptions / models:** " + "; ".join(a))
    out.append("")
block = "\n".join(out)
s = open('/verif/DESIGN.md').read()
s = re.sub(r'<!-- BEGIN GENERATED BOUNDS -->.*?<!-- END GENERATED BOUNDS -->', lambda m: '<!-- BEGIN GENERATED BOUNDS -->\n' + block + '\n<!-- END GENERATED BOUNDS -->', s, flags=re.S)
open('/verif/DESIGN.md', 'w').write(s)
print("DESIGN.md bounds block regenerated (%d properties)" % len(idx))
