package main

// Models of fmt (Sprintf/Errorf/Sprint/Fprintf), strconv formatting and errors.Is/As.

import (
	"fmt"
	"go/types"
	"strconv"
	"strings"

	"golang.org/x/tools/go/ssa"
)

func init() {
	reg("fmt.Sprintf", func(it *Interp, fr *frame, fn *ssa.Function, args []Value) Value {
		return it.sprintf(fr, asStr(args[0]), args[1].(Slice).a, nil)
	})
	reg("fmt.Sprint", func(it *Interp, fr *frame, fn *ssa.Function, args []Value) Value {
		return it.sprint(fr, args[0].(Slice).a, false)
	})
	reg("fmt.Sprintln", func(it *Interp, fr *frame, fn *ssa.Function, args []Value) Value {
		return it.sprint(fr, args[0].(Slice).a, true)
	})
	reg("fmt.Errorf", func(it *Interp, fr *frame, fn *ssa.Function, args []Value) Value {
		var wrapped []Value
		msg := it.sprintf(fr, asStr(args[0]), args[1].(Slice).a, &wrapped)
		switch len(wrapped) {
		case 0:
			et := types.NewPointer(typeOfNamed(it.prog, "errors", "errorString"))
			var cell Value = Struct{msg}
			return Iface{t: et, v: &cell}
		case 1:
			wt := types.NewPointer(typeOfNamed(it.prog, "fmt", "wrapError"))
			var cell Value = Struct{msg, wrapped[0]}
			return Iface{t: wt, v: &cell}
		default:
			wt := types.NewPointer(typeOfNamed(it.prog, "fmt", "wrapErrors"))
			var cell Value = Struct{msg, Slice{a: wrapped}}
			return Iface{t: wt, v: &cell}
		}
	})
	reg("fmt.Fprintf", func(it *Interp, fr *frame, fn *ssa.Function, args []Value) Value {
		s := it.sprintf(fr, asStr(args[1]), args[2].(Slice).a, nil)
		return it.writeTo(fr, args[0], s)
	})
	reg("fmt.Fprint", func(it *Interp, fr *frame, fn *ssa.Function, args []Value) Value {
		return it.writeTo(fr, args[0], it.sprint(fr, args[1].(Slice).a, false))
	})
	reg("fmt.Fprintln", func(it *Interp, fr *frame, fn *ssa.Function, args []Value) Value {
		return it.writeTo(fr, args[0], it.sprint(fr, args[1].(Slice).a, true))
	})
	reg("fmt.Printf fmt.Println fmt.Print", func(it *Interp, fr *frame, fn *ssa.Function, args []Value) Value {
		return Tuple{mkInt(0), Iface{}}
	})
	reg("strconv.Itoa", func(it *Interp, fr *frame, fn *ssa.Function, args []Value) Value {
		return it.formatInt(args[0].(*Term), true)
	})
	reg("strconv.FormatInt strconv.FormatUint", func(it *Interp, fr *frame, fn *ssa.Function, args []Value) Value {
		x, base := args[0].(*Term), args[1].(*Term)
		signed := fn.Name() == "FormatInt"
		if x.isConst() && base.isConst() {
			if signed {
				return mkStr(strconv.FormatInt(x.sval(), int(base.cv)))
			}
			return mkStr(strconv.FormatUint(x.cv, int(base.cv)))
		}
		if !base.isConst() || base.cv != 10 {
			panic(unsupported(fn.Name() + " with symbolic value and base != 10"))
		}
		return it.formatInt(x, signed)
	})
	reg("strconv.AppendInt strconv.AppendUint", func(it *Interp, fr *frame, fn *ssa.Function, args []Value) Value {
		x, base := args[1].(*Term), args[2].(*Term)
		if !base.isConst() || base.cv != 10 {
			panic(unsupported(fn.Name() + " with base != 10"))
		}
		s := it.formatInt(x, fn.Name() == "AppendInt").force()
		dst := args[0].(Slice)
		out := append([]Value{}, dst.a...)
		for _, b := range s.bytes() {
			out = append(out, b)
		}
		return Slice{a: out}
	})
	// Summary of the pure pair FormatInt/ParseInt: text known to be the decimal rendering
	// of a term parses back to that term. Anything else runs the real strconv code.
	reg("strconv.ParseInt", func(it *Interp, fr *frame, fn *ssa.Function, args []Value) Value {
		s := asStr(args[0])
		base, bits := args[1].(*Term), args[2].(*Term)
		if base.isConst() && base.cv == 10 && bits.isConst() && (bits.cv == 64 || bits.cv == 0) {
			for _, sp := range s.spans {
				if sp.lo == 0 && sp.hi == s.Len() && sp.signed {
					it.modelsUsed["strconv.ParseInt∘FormatInt summary"]++
					return Tuple{sp.val, Iface{}}
				}
			}
		}
		return it.callBody(fr, fn, args)
	})
	reg("strconv.Atoi", func(it *Interp, fr *frame, fn *ssa.Function, args []Value) Value {
		s := asStr(args[0])
		for _, sp := range s.spans {
			if sp.lo == 0 && sp.hi == s.Len() && sp.signed {
				it.modelsUsed["strconv.ParseInt∘FormatInt summary"]++
				return Tuple{sp.val, Iface{}}
			}
		}
		return it.callBody(fr, fn, args)
	})
	reg("strconv.Quote", func(it *Interp, fr *frame, fn *ssa.Function, args []Value) Value {
		return it.quote(asStr(args[0]))
	})
	reg("errors.Is", func(it *Interp, fr *frame, fn *ssa.Function, args []Value) Value {
		return mkBool(it.errorsIs(fr, args[0], args[1]))
	})
	reg("errors.As", func(it *Interp, fr *frame, fn *ssa.Function, args []Value) Value {
		return mkBool(it.errorsAs(fr, args[0], args[1]))
	})
}

func (it *Interp) writeTo(fr *frame, w Value, s Str) Value {
	wi := it.resolveNil(fr, w).(Iface)
	if wi.t == nil {
		panic(targetPanic{implicit: "invalid memory address or nil pointer dereference (nil io.Writer)"})
	}
	bs := s.force().bytes()
	m := it.findMethod(wi.t, "Write")
	if m == nil {
		panic(unsupported("fmt.Fprint*: writer without Write"))
	}
	return it.call(fr, 0, m, []Value{wi.v, sliceOfBytes(bs)})
}

// findMethod returns the concrete method named name of dynamic type t.
func (it *Interp) findMethod(t types.Type, name string) *ssa.Function {
	ms := it.prog.MethodSets.MethodSet(t)
	for i := 0; i < ms.Len(); i++ {
		sel := ms.At(i)
		if sel.Obj().Name() == name {
			return it.prog.MethodValue(sel)
		}
	}
	return nil
}

func (it *Interp) methodSig(t types.Type, name string) *types.Signature {
	ms := it.prog.MethodSets.MethodSet(t)
	for i := 0; i < ms.Len(); i++ {
		sel := ms.At(i)
		if sel.Obj().Name() == name {
			return sel.Type().(*types.Signature)
		}
	}
	return nil
}

var errorIfaceType = types.Universe.Lookup("error").Type()

func isErrorType(t types.Type) bool { return types.Identical(t, errorIfaceType) }

// callMethod invokes a method by name on an interface value; ok=false if absent.
func (it *Interp) callMethod(fr *frame, x Iface, name string, args ...Value) (Value, bool) {
	if no, isNative := x.v.(*nativeObj); isNative {
		m := no.method(name)
		if m == nil {
			return nil, false
		}
		return m.fn(fr, args), true
	}
	m := it.findMethod(x.t, name)
	if m == nil {
		return nil, false
	}
	return it.call(fr, 0, m, append([]Value{x.v}, args...)), true
}

func (it *Interp) errorsIs(fr *frame, errV, targetV Value) bool {
	errV, targetV = it.resolveNil(fr, errV), it.resolveNil(fr, targetV)
	err, target := errV.(Iface), targetV.(Iface)
	if err.t == nil || target.t == nil {
		return err.t == nil && target.t == nil
	}
	comparable := types.Comparable(target.t)
	return it.errorsIsRec(fr, err, target, comparable)
}

func (it *Interp) errorsIsRec(fr *frame, err, target Iface, comparable bool) bool {
	for {
		if comparable && err.t != nil && types.Identical(err.t, target.t) && types.Comparable(err.t) {
			if it.ex.branch(it.equalsTerm(fr, err.t, err.v, target.v)) {
				return true
			}
		}
		if sig := it.methodSig(err.t, "Is"); sig != nil && sig.Params().Len() == 1 && isErrorType(sig.Params().At(0).Type()) && sig.Results().Len() == 1 && isBoolT(sig.Results().At(0).Type()) {
			r, _ := it.callMethod(fr, err, "Is", target)
			if it.ex.branch(r.(*Term)) {
				return true
			}
		}
		sig := it.methodSig(err.t, "Unwrap")
		if sig == nil || sig.Params().Len() != 0 || sig.Results().Len() != 1 {
			return false
		}
		rt := sig.Results().At(0).Type()
		if isErrorType(rt) {
			r, _ := it.callMethod(fr, err, "Unwrap")
			next := it.resolveNil(fr, r).(Iface)
			if next.t == nil {
				return false
			}
			err = next
			continue
		}
		if sl, ok := rt.Underlying().(*types.Slice); ok && isErrorType(sl.Elem()) {
			r, _ := it.callMethod(fr, err, "Unwrap")
			for _, e := range r.(Slice).a {
				ei := it.resolveNil(fr, e).(Iface)
				if ei.t == nil {
					continue
				}
				if it.errorsIsRec(fr, ei, target, comparable) {
					return true
				}
			}
			return false
		}
		return false
	}
}

func (it *Interp) errorsAs(fr *frame, errV, targetV Value) bool {
	errV = it.resolveNil(fr, errV)
	err := errV.(Iface)
	tgt := targetV.(Iface)
	if tgt.t == nil {
		panic(targetPanic{v: Iface{t: types.Typ[types.String], v: mkStr("errors: target cannot be nil")}})
	}
	pt, ok := tgt.t.Underlying().(*types.Pointer)
	if !ok {
		panic(targetPanic{v: Iface{t: types.Typ[types.String], v: mkStr("errors: target must be a non-nil pointer")}})
	}
	targetType := pt.Elem()
	tp := tgt.v.(*Value)
	if err.t == nil {
		return false
	}
	return it.errorsAsRec(fr, err, tgt, targetType, tp)
}

func (it *Interp) errorsAsRec(fr *frame, err Iface, tgt Iface, targetType types.Type, tp *Value) bool {
	for {
		if iface, isI := targetType.Underlying().(*types.Interface); isI {
			if it.implements(err.t, iface) {
				it.storeAt(tp, err)
				return true
			}
		} else if types.Identical(err.t, targetType) {
			it.storeAt(tp, err.v)
			return true
		}
		if sig := it.methodSig(err.t, "As"); sig != nil && sig.Params().Len() == 1 && sig.Results().Len() == 1 && isBoolT(sig.Results().At(0).Type()) {
			if _, isEmpty := sig.Params().At(0).Type().Underlying().(*types.Interface); isEmpty {
				r, _ := it.callMethod(fr, err, "As", tgt)
				if it.ex.branch(r.(*Term)) {
					return true
				}
			}
		}
		sig := it.methodSig(err.t, "Unwrap")
		if sig == nil || sig.Params().Len() != 0 || sig.Results().Len() != 1 {
			return false
		}
		rt := sig.Results().At(0).Type()
		if isErrorType(rt) {
			r, _ := it.callMethod(fr, err, "Unwrap")
			next := it.resolveNil(fr, r).(Iface)
			if next.t == nil {
				return false
			}
			err = next
			continue
		}
		if sl, ok := rt.Underlying().(*types.Slice); ok && isErrorType(sl.Elem()) {
			r, _ := it.callMethod(fr, err, "Unwrap")
			for _, e := range r.(Slice).a {
				ei := it.resolveNil(fr, e).(Iface)
				if ei.t == nil {
					continue
				}
				if it.errorsAsRec(fr, ei, tgt, targetType, tp) {
					return true
				}
			}
			return false
		}
		return false
	}
}

// ---- formatting

// formatInt renders x in decimal. A symbolic x yields a lazy string which, when
// inspected, forks over the digit count and introduces one fresh variable per digit
// (x = Σ dᵢ·10ⁱ), which avoids 64-bit division in the solver.
func (it *Interp) formatInt(x *Term, signed bool) Str {
	if x.isConst() {
		if signed {
			return mkStr(strconv.FormatInt(x.sval(), 10))
		}
		return mkStr(strconv.FormatUint(x.cv, 10))
	}
	return Str{lazy: &lazyStr{desc: "itoa", f: func() Str { return it.formatIntNow(x, signed) }}}
}

func (it *Interp) formatIntNow(x *Term, signed bool) Str {
	w := int(x.sort)
	x64 := x
	if w < 64 {
		if signed {
			x64 = bvSext(x, 64)
		} else {
			x64 = bvZext(x, 64)
		}
	}
	neg := false
	mag := x64
	if signed {
		isNeg := bvCmp("bvslt", x64, mkInt(0))
		if it.ex.branch(isNeg) {
			neg = true
			mag = bvNeg(x64) // magnitude as unsigned (MinInt64 maps to 2^63)
		}
	}
	// number of digits: 1..20, thresholds are powers of ten (unsigned compare)
	maxDigits := 20
	pow := uint64(1)
	var conds []*Term
	for k := 1; k <= maxDigits; k++ {
		// k digits  <=>  10^(k-1) <= mag < 10^k   (k=1: mag < 10)
		var lo, hi *Term
		if k == 1 {
			lo = tTrue
		} else {
			lo = bvCmp("bvuge", mag, mkBV(64, pow))
		}
		if k == 20 {
			hi = tTrue
		} else {
			hi = bvCmp("bvult", mag, mkBV(64, pow*10))
		}
		conds = append(conds, mkAnd(lo, hi))
		if k < 20 {
			pow *= 10
		}
	}
	k := it.ex.choose("digits", conds, true) + 1
	// the digit variables are named after what defines them (the hash-consed magnitude
	// term and the digit count), so structurally shared terms over them are consistent
	// across paths
	base := fmt.Sprintf("dg%d_%d", mag.id, k)
	if mag.id == 0 {
		base = it.ex.freshName("digit")
	}
	ds := make([]*Term, k) // ds[0] is the most significant
	sum := mkInt(0)
	var cons []*Term
	for i := 0; i < k; i++ {
		d := mkVar(fmt.Sprintf("%s_%d", base, i), 8)
		ds[i] = d
		cons = append(cons, bvCmp("bvule", d, mkBV(8, 9)))
		// same shape as strconv.ParseUint's n*10 + uint64(c-'0') so that the solver sees
		// syntactically equal terms on a parse of this text
		sum = bvBin("bvadd", bvBin("bvmul", sum, mkInt(10)), bvZext(d, 64))
	}
	if k > 1 {
		cons = append(cons, bvCmp("bvuge", ds[0], mkBV(8, 1)))
	}
	cons = append(cons, mkEq(sum, mag))
	// the digit variables are defined by (not merely constrained with) the value: the
	// constraint is satisfiable for every mag with k digits, so this is an assume that
	// never prunes.
	// the digit variables are a total function of mag: their defining constraint is
	// attached to the variables and asserted only in queries that mention one of them
	it.ex.harvest(mkAnd(cons...))
	defn := &varDefn{cons: mkAnd(cons...)}
	for _, d := range ds {
		d.defn = defn
		d.defs = []*Term{defn.cons}
	}
	var out []*Term
	if neg {
		out = append(out, mkBV(8, '-'))
	}
	for _, d := range ds {
		out = append(out, bvBin("bvadd", d, mkBV(8, '0')))
	}
	res := strFromBytes(out)
	res.spans = []numSpan{{0, len(out), x64, signed}}
	return res
}

func (it *Interp) quote(s Str) Str {
	s = s.force()
	if s.isConcrete() {
		return mkStr(strconv.Quote(s.s))
	}
	if s.isAtom() {
		return s
	}
	it.mstate.assumptions["%q / strconv.Quote of a symbolic string is rendered as the raw bytes between quotes (escaping not modelled; only affects message text)"] = true
	return strConcat(strConcat(mkStr("\""), s), mkStr("\""))
}

func isSymbolicValue(v Value) bool {
	switch v := v.(type) {
	case *Term:
		return !v.isConst()
	case Str:
		return !v.isConcrete()
	case Iface:
		return isSymbolicValue(v.v)
	case MaybeNil:
		return true
	}
	return false
}

// formatValue renders one operand for the given verb.
func (it *Interp) formatValue(fr *frame, verb byte, flags string, argV Value, wrapped *[]Value) Str {
	argV = it.resolveNil(fr, argV)
	arg, _ := argV.(Iface)
	if arg.t == nil {
		if verb == 'w' && wrapped != nil {
			*wrapped = append(*wrapped, Iface{})
		}
		return mkStr("<nil>")
	}
	if verb == 'T' {
		return mkStr(arg.t.String())
	}
	if verb == 'w' {
		if wrapped != nil {
			*wrapped = append(*wrapped, arg)
		}
		verb = 'v'
	}
	// error / Stringer
	if verb == 'v' || verb == 's' || verb == 'q' {
		if sig := it.methodSig(arg.t, "Error"); sig != nil && sig.Params().Len() == 0 && sig.Results().Len() == 1 && isString(sig.Results().At(0).Type()) {
			if p, ok := arg.v.(*Value); ok && p == nil {
				return mkStr("<nil>")
			}
			r, _ := it.callMethod(fr, arg, "Error")
			if verb == 'q' {
				return it.quote(r.(Str))
			}
			return r.(Str)
		}
		if sig := it.methodSig(arg.t, "String"); sig != nil && sig.Params().Len() == 0 && sig.Results().Len() == 1 && isString(sig.Results().At(0).Type()) {
			if p, ok := arg.v.(*Value); ok && p == nil {
				return mkStr("<nil>")
			}
			r, _ := it.callMethod(fr, arg, "String")
			if verb == 'q' {
				return it.quote(r.(Str))
			}
			return r.(Str)
		}
	}
	switch v := arg.v.(type) {
	case Str:
		switch verb {
		case 'q':
			return it.quote(v)
		case 'x':
			v = v.force()
			if v.isConcrete() {
				return mkStr(fmt.Sprintf("%x", v.s))
			}
			var out []*Term
			for _, b := range v.bytes() {
				out = append(out, hexDigit(bvBin("bvlshr", b, mkBV(8, 4))), hexDigit(bvBin("bvand", b, mkBV(8, 15))))
			}
			return strFromBytes(out)
		}
		return v
	case *Term:
		if v.sort == SBool {
			if v.isConst() {
				return mkStr(strconv.FormatBool(v.cv != 0))
			}
			if it.ex.branch(v) {
				return mkStr("true")
			}
			return mkStr("false")
		}
		_, signed, _ := intWidth(arg.t)
		switch verb {
		case 'd', 'v', 's':
			return it.formatInt(v, signed)
		case 'x', 'X', 'c', 'o', 'b', 'U', 'q':
			if v.isConst() {
				if signed {
					return mkStr(fmt.Sprintf("%"+flags+string(verb), v.sval()))
				}
				return mkStr(fmt.Sprintf("%"+flags+string(verb), v.cv))
			}
			if verb == 'c' || verb == 'q' {
				it.mstate.assumptions["%c/%q of a symbolic rune rendered as a single raw byte (message text only)"] = true
				b := bvExtract(v, 7, 0)
				if verb == 'q' {
					return strFromBytes([]*Term{mkBV(8, '\''), b, mkBV(8, '\'')})
				}
				return strFromBytes([]*Term{b})
			}
			panic(unsupported("fmt verb %" + string(verb) + " on a symbolic integer"))
		}
	case float64:
		return mkStr(fmt.Sprintf("%"+flags+string(verb), v))
	case Slice:
		// []byte with %s/%x/%q, []string with %v/%q
		if sl, ok := arg.t.Underlying().(*types.Slice); ok {
			if b, ok := sl.Elem().Underlying().(*types.Basic); ok && b.Kind() == types.Uint8 {
				s := strFromBytes(bytesOfSlice(v))
				return it.formatValue(fr, verb, flags, Iface{t: types.Typ[types.String], v: s}, nil)
			}
			out := mkStr("[")
			for i, e := range v.a {
				if i > 0 {
					out = strConcat(out, mkStr(" "))
				}
				out = strConcat(out, it.formatValue(fr, verb, flags, Iface{t: sl.Elem(), v: e}, nil))
			}
			return strConcat(out, mkStr("]"))
		}
	case *Value:
		if v == nil {
			return mkStr("<nil>")
		}
		return mkStr("0xc000000000")
	case Struct:
		st := arg.t.Underlying().(*types.Struct)
		out := mkStr("{")
		for i, f := range v {
			if i > 0 {
				out = strConcat(out, mkStr(" "))
			}
			if strings.Contains(flags, "+") || strings.Contains(flags, "#") {
				out = strConcat(out, mkStr(st.Field(i).Name()+":"))
			}
			var fv Value = Iface{t: st.Field(i).Type(), v: f}
			if fi, ok := f.(Iface); ok {
				fv = fi
			}
			out = strConcat(out, it.formatValue(fr, 'v', flags, fv, nil))
		}
		return strConcat(out, mkStr("}"))
	case *Map:
		return mkStr("map[...]")
	}
	it.mstate.assumptions[fmt.Sprintf("fmt: operand of type %v rendered as a placeholder (message text only)", arg.t)] = true
	return mkStr("<" + arg.t.String() + ">")
}

func hexDigit(n *Term) *Term {
	if n.isConst() {
		return mkBV(8, uint64("0123456789abcdef"[n.cv&15]))
	}
	return mkIte(bvCmp("bvult", n, mkBV(8, 10)), bvBin("bvadd", n, mkBV(8, '0')), bvBin("bvadd", n, mkBV(8, 'a'-10)))
}

func (it *Interp) sprintf(fr *frame, format Str, args []Value, wrapped *[]Value) Str {
	if !format.isConcrete() {
		panic(unsupported("fmt with a non-constant format string"))
	}
	f := format.s
	// lazily formatted unless every operand is concrete and %w must be collected now
	var parts []func() Str
	argi := 0
	i := 0
	lit := func(s string) { parts = append(parts, func() Str { return mkStr(s) }) }
	for i < len(f) {
		j := strings.IndexByte(f[i:], '%')
		if j < 0 {
			lit(f[i:])
			break
		}
		if j > 0 {
			lit(f[i : i+j])
		}
		i += j + 1
		if i >= len(f) {
			lit("%!(NOVERB)")
			break
		}
		start := i
		for i < len(f) && strings.IndexByte("+-# 0123456789.*[]", f[i]) >= 0 {
			i++
		}
		flags := f[start:i]
		if i >= len(f) {
			lit("%!(NOVERB)")
			break
		}
		verb := f[i]
		i++
		if verb == '%' {
			lit("%")
			continue
		}
		if strings.ContainsAny(flags, "*[") {
			panic(unsupported("fmt: * or [n] in format"))
		}
		if argi >= len(args) {
			lit("%!" + string(verb) + "(MISSING)")
			continue
		}
		arg := args[argi]
		argi++
		if verb == 'w' && wrapped != nil {
			a := it.resolveNil(fr, arg)
			ai, _ := a.(Iface)
			*wrapped = append(*wrapped, ai)
			verb = 'v'
			arg = a
		}
		fl := flags
		vb := verb
		simple := strings.Trim(fl, "+#") == ""
		parts = append(parts, func() Str {
			s := it.formatValue(fr, vb, fl, arg, nil)
			if !simple {
				s = s.force()
				if s.isConcrete() {
					// re-apply width/padding flags natively on the rendered text
					return mkStr(fmt.Sprintf("%"+strings.Trim(fl, "+#")+"s", s.s))
				}
				it.mstate.assumptions["fmt width/padding flags ignored for symbolic operands (message text only)"] = true
			}
			return s
		})
	}
	if argi < len(args) {
		lit("%!(EXTRA)")
	}
	build := func() Str {
		out := mkStr("")
		for _, p := range parts {
			out = strConcat(out, p())
		}
		return out
	}
	anySym := false
	for _, a := range args {
		if isSymbolicValue(a) {
			anySym = true
		}
	}
	_ = anySym
	// Always lazy: error texts are rarely inspected, and rendering may call Error()
	// methods and fork on digit counts.
	return Str{lazy: &lazyStr{desc: "sprintf " + strconv.Quote(f), f: build}}
}

func (it *Interp) sprint(fr *frame, args []Value, ln bool) Str {
	parts := args
	build := func() Str {
		out := mkStr("")
		prevString := false
		for i, a := range parts {
			a = it.resolveNil(fr, a)
			ai, _ := a.(Iface)
			_, isStr := ai.v.(Str)
			if i > 0 && (ln || (!isStr && !prevString)) {
				out = strConcat(out, mkStr(" "))
			}
			out = strConcat(out, it.formatValue(fr, 'v', "", a, nil))
			prevString = isStr
		}
		if ln {
			out = strConcat(out, mkStr("\n"))
		}
		return out
	}
	return Str{lazy: &lazyStr{desc: "sprint", f: build}}
}
