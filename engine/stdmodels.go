package main

import (
	"fmt"
	"go/types"
	"os"
	"strings"

	"golang.org/x/tools/go/ssa"
)

func reg(names string, m modelFn) {
	for _, n := range strings.Fields(names) {
		models[n] = m
	}
}

func noop(it *Interp, fr *frame, fn *ssa.Function, args []Value) Value { return nil }

func asStr(v Value) Str { return v.(Str).force() }

// firstIndex forks over the position of the first match among conds (exclusive
// "first" conditions are derived here); returns -1 if none.
func (it *Interp) firstMatch(match []*Term) int {
	if len(match) == 0 {
		return -1
	}
	conds := make([]*Term, len(match)+1)
	var prevNone []*Term
	for i, m := range match {
		conds[i] = mkAnd(append(append([]*Term{}, prevNone...), m)...)
		prevNone = append(prevNone, mkNot(m))
	}
	conds[len(match)] = mkAnd(prevNone...)
	j := it.ex.choose("first-match", conds, true)
	if j == len(match) {
		return -1
	}
	return j
}

func matchAt(hay, needle []*Term, i int) *Term {
	cs := make([]*Term, len(needle))
	for j := range needle {
		cs[j] = mkEq(hay[i+j], needle[j])
	}
	return mkAnd(cs...)
}

func (it *Interp) indexBytes(hay, needle []*Term) int {
	if len(needle) == 0 {
		return 0
	}
	if len(needle) > len(hay) {
		return -1
	}
	var ms []*Term
	for i := 0; i+len(needle) <= len(hay); i++ {
		ms = append(ms, matchAt(hay, needle, i))
	}
	return it.firstMatch(ms)
}

func (it *Interp) lastIndexBytes(hay, needle []*Term) int {
	if len(needle) == 0 {
		return len(hay)
	}
	if len(needle) > len(hay) {
		return -1
	}
	var ms []*Term
	var pos []int
	for i := len(hay) - len(needle); i >= 0; i-- {
		ms = append(ms, matchAt(hay, needle, i))
		pos = append(pos, i)
	}
	j := it.firstMatch(ms)
	if j < 0 {
		return -1
	}
	return pos[j]
}

func anyBytes(v Value) []*Term {
	switch v := v.(type) {
	case Str:
		return v.force().bytes()
	case Slice:
		return bytesOfSlice(v)
	}
	panic(fmt.Sprintf("anyBytes: %T", v))
}

func allConst(bs []*Term) bool {
	for _, b := range bs {
		if !b.isConst() {
			return false
		}
	}
	return true
}

func registerStdModels() {
	// ---- index / compare leaves
	reg("internal/bytealg.IndexByteString internal/bytealg.IndexByte strings.IndexByte bytes.IndexByte internal/stringslite.IndexByte", func(it *Interp, fr *frame, fn *ssa.Function, args []Value) Value {
		return mkInt(int64(it.indexBytes(anyBytes(args[0]), []*Term{args[1].(*Term)})))
	})
	reg("internal/bytealg.LastIndexByteString internal/bytealg.LastIndexByte strings.LastIndexByte bytes.LastIndexByte", func(it *Interp, fr *frame, fn *ssa.Function, args []Value) Value {
		return mkInt(int64(it.lastIndexBytes(anyBytes(args[0]), []*Term{args[1].(*Term)})))
	})
	reg("internal/bytealg.IndexString internal/bytealg.Index strings.Index bytes.Index internal/stringslite.Index", func(it *Interp, fr *frame, fn *ssa.Function, args []Value) Value {
		return mkInt(int64(it.indexBytes(anyBytes(args[0]), anyBytes(args[1]))))
	})
	reg("strings.LastIndex bytes.LastIndex", func(it *Interp, fr *frame, fn *ssa.Function, args []Value) Value {
		return mkInt(int64(it.lastIndexBytes(anyBytes(args[0]), anyBytes(args[1]))))
	})
	reg("strings.Contains", func(it *Interp, fr *frame, fn *ssa.Function, args []Value) Value {
		hay, needle := anyBytes(args[0]), anyBytes(args[1])
		if len(needle) == 0 {
			return tTrue
		}
		var ms []*Term
		for i := 0; i+len(needle) <= len(hay); i++ {
			ms = append(ms, matchAt(hay, needle, i))
		}
		return mkOr(ms...)
	})
	reg("strings.ContainsRune strings.ContainsAny strings.IndexAny strings.IndexRune", func(it *Interp, fr *frame, fn *ssa.Function, args []Value) Value {
		if s0, ok := args[0].(Str); ok && s0.force().isConcrete() {
			hs := s0.force().s
			switch a := args[1].(type) {
			case *Term:
				if a.isConst() {
					r := rune(a.sval())
					switch fn.Name() {
					case "ContainsRune":
						return mkBool(strings.ContainsRune(hs, r))
					case "IndexRune":
						return mkInt(int64(strings.IndexRune(hs, r)))
					}
				}
			case Str:
				if a.force().isConcrete() {
					switch fn.Name() {
					case "ContainsAny":
						return mkBool(strings.ContainsAny(hs, a.force().s))
					case "IndexAny":
						return mkInt(int64(strings.IndexAny(hs, a.force().s)))
					}
				}
			}
		}
		hay := anyBytes(args[0])
		var set []*Term
		switch a := args[1].(type) {
		case *Term: // rune
			if !a.isConst() || a.cv >= 0x80 {
				panic(unsupported(fn.Name() + " with symbolic or non-ASCII rune"))
			}
			set = []*Term{mkBV(8, a.cv)}
		case Str:
			set = a.force().bytes()
			if !allConst(set) {
				panic(unsupported(fn.Name() + " with symbolic char set"))
			}
			for _, c := range set {
				if c.cv >= 0x80 {
					panic(unsupported(fn.Name() + " with non-ASCII char set"))
				}
			}
		}
		var ms []*Term
		for _, h := range hay {
			var any []*Term
			for _, c := range set {
				any = append(any, mkEq(h, c))
			}
			ms = append(ms, mkOr(any...))
		}
		if strings.HasPrefix(fn.Name(), "Contains") {
			return mkOr(ms...)
		}
		return mkInt(int64(it.firstMatch(ms)))
	})
	reg("internal/bytealg.CountString internal/bytealg.Count", func(it *Interp, fr *frame, fn *ssa.Function, args []Value) Value {
		hay := anyBytes(args[0])
		c := args[1].(*Term)
		n := mkInt(0)
		for _, h := range hay {
			n = bvBin("bvadd", n, mkIte(mkEq(h, c), mkInt(1), mkInt(0)))
		}
		return n
	})
	reg("strings.Count", func(it *Interp, fr *frame, fn *ssa.Function, args []Value) Value {
		hay, sep := anyBytes(args[0]), anyBytes(args[1])
		if len(sep) == 1 {
			n := mkInt(0)
			for _, h := range hay {
				n = bvBin("bvadd", n, mkIte(mkEq(h, sep[0]), mkInt(1), mkInt(0)))
			}
			return n
		}
		if len(sep) == 0 {
			if !allConst(hay) {
				panic(unsupported("strings.Count(sym, \"\")"))
			}
			return mkInt(int64(strings.Count(asStr(args[0]).s, "")))
		}
		// non-overlapping count: iterate with forks
		cnt := 0
		pos := 0
		for {
			i := it.indexBytes(hay[pos:], sep)
			if i < 0 {
				break
			}
			cnt++
			pos += i + len(sep)
		}
		return mkInt(int64(cnt))
	})
	reg("internal/bytealg.Equal bytes.Equal", func(it *Interp, fr *frame, fn *ssa.Function, args []Value) Value {
		if a, ok := args[0].(Slice); ok {
			if b, ok := args[1].(Slice); ok {
				return it.valsEqual(a.a, b.a)
			}
		}
		return strEq(strFromBytes(anyBytes(args[0])), strFromBytes(anyBytes(args[1])))
	})
	reg("internal/bytealg.CompareString internal/bytealg.Compare strings.Compare bytes.Compare cmp.Compare[string]", func(it *Interp, fr *frame, fn *ssa.Function, args []Value) Value {
		var a, b Str
		if s, ok := args[0].(Str); ok {
			a, b = s.force(), asStr(args[1])
		} else {
			a, b = strFromBytes(anyBytes(args[0])), strFromBytes(anyBytes(args[1]))
		}
		lt := it.strLessV(a, b)
		eq := it.strEqV(a, b)
		return mkIte(lt, mkInt(-1), mkIte(eq, mkInt(0), mkInt(1)))
	})
	reg("internal/bytealg.MakeNoZero", func(it *Interp, fr *frame, fn *ssa.Function, args []Value) Value {
		n := int(it.concreteInt(args[0], "MakeNoZero"))
		out := make([]Value, n)
		for i := range out {
			out[i] = mkBV(8, 0)
		}
		return Slice{a: out}
	})
	reg("strings.Clone internal/stringslite.Clone", func(it *Interp, fr *frame, fn *ssa.Function, args []Value) Value { return args[0] })
	reg("strings.EqualFold", func(it *Interp, fr *frame, fn *ssa.Function, args []Value) Value {
		a, b := asStr(args[0]), asStr(args[1])
		if a.isConcrete() && b.isConcrete() {
			return mkBool(strings.EqualFold(a.s, b.s))
		}
		if a.Len() != b.Len() {
			// exact for ASCII; non-ASCII foldings of different byte length are outside the model
			it.mstate.assumptions["strings.EqualFold on symbolic input: ASCII folding only"] = true
			return tFalse
		}
		it.mstate.assumptions["strings.EqualFold on symbolic input: ASCII folding only"] = true
		var cs []*Term
		for i := 0; i < a.Len(); i++ {
			cs = append(cs, mkEq(asciiLower(a.byteAt(i)), asciiLower(b.byteAt(i))))
		}
		return mkAnd(cs...)
	})
	reg("strings.ToLower strings.ToUpper", func(it *Interp, fr *frame, fn *ssa.Function, args []Value) Value {
		a := asStr(args[0])
		if a.isConcrete() {
			if fn.Name() == "ToLower" {
				return mkStr(strings.ToLower(a.s))
			}
			return mkStr(strings.ToUpper(a.s))
		}
		it.mstate.assumptions["strings.ToLower/ToUpper on symbolic input: ASCII mapping only (bytes >= 0x80 unchanged)"] = true
		out := make([]*Term, a.Len())
		for i := range out {
			if fn.Name() == "ToLower" {
				out[i] = asciiLower(a.byteAt(i))
			} else {
				out[i] = asciiUpper(a.byteAt(i))
			}
		}
		return strFromBytes(out)
	})

	// ---- strings.Builder (unsafe inside)
	reg("(*strings.Builder).copyCheck", noop)
	reg("(*strings.Builder).String", func(it *Interp, fr *frame, fn *ssa.Function, args []Value) Value {
		p := it.derefPtr(fr, args[0])
		buf := (*p).(Struct)[1].(Slice)
		return strFromBytes(bytesOfSlice(buf))
	})

	// ---- unsafe string/slice helpers appear as builtins; handled in callBuiltin if needed

	// ---- sync
	reg("(*sync.Mutex).Lock (*sync.RWMutex).Lock", func(it *Interp, fr *frame, fn *ssa.Function, args []Value) Value {
		it.mutexLock(fr, args[0].(*Value), true)
		return nil
	})
	reg("(*sync.Mutex).Unlock (*sync.RWMutex).Unlock", func(it *Interp, fr *frame, fn *ssa.Function, args []Value) Value {
		it.mutexUnlock(fr, args[0].(*Value), true)
		return nil
	})
	reg("(*sync.RWMutex).RLock", func(it *Interp, fr *frame, fn *ssa.Function, args []Value) Value {
		it.mutexLock(fr, args[0].(*Value), false)
		return nil
	})
	reg("(*sync.RWMutex).RUnlock", func(it *Interp, fr *frame, fn *ssa.Function, args []Value) Value {
		it.mutexUnlock(fr, args[0].(*Value), false)
		return nil
	})
	reg("(*sync.Mutex).TryLock", func(it *Interp, fr *frame, fn *ssa.Function, args []Value) Value {
		return mkBool(it.mutexTryLock(fr, args[0].(*Value)))
	})
	reg("(*sync.Once).Do", func(it *Interp, fr *frame, fn *ssa.Function, args []Value) Value {
		p := it.derefPtr(fr, args[0])
		st := (*p).(Struct)
		// field 0: done (atomic.Uint32 or uint32 depending on version)
		doneP := &st[0]
		if isZeroish(*doneP) {
			it.call(fr, 0, args[1], nil)
			it.storeAt(doneP, oneLike(*doneP))
			// happens-before: the completion of f is ordered before the return of every
			// later Do (race detector)
			if it.lockLog != nil {
				it.lockLog.release(it.lockLog.cur(fr), p)
			}
		} else if it.lockLog != nil {
			it.lockLog.acquire(it.lockLog.cur(fr), p)
		}
		return nil
	})
	reg("sync.OnceValue sync.OnceValues sync.OnceFunc", func(it *Interp, fr *frame, fn *ssa.Function, args []Value) Value {
		f := args[0]
		done := false
		var res Value
		hb := new(int) // identity of this Once for the race detector's happens-before
		return &Native{name: "sync.Once*", fn: func(fr2 *frame, a []Value) Value {
			if !done {
				it.impure("sync.Once")
				res = it.call(fr2, 0, f, nil)
				done = true
				it.ex.journal = append(it.ex.journal, undoEntry{fn: func() { done = false; res = nil }})
				if it.lockLog != nil {
					it.lockLog.release(it.lockLog.cur(fr2), hb)
				}
			} else if it.lockLog != nil {
				it.lockLog.acquire(it.lockLog.cur(fr2), hb)
			}
			return res
		}}
	})
	reg("(*sync.Pool).Get", func(it *Interp, fr *frame, fn *ssa.Function, args []Value) Value {
		p := it.derefPtr(fr, args[0])
		st := (*p).(Struct)
		newf := st[len(st)-1]
		if f, ok := newf.(*ssa.Function); ok && f == nil {
			return Iface{}
		}
		return it.call(fr, 0, newf, nil)
	})
	reg("(*sync.Pool).Put runtime.SetFinalizer runtime.KeepAlive runtime.Gosched runtime.GC", noop)
	reg("log.Printf log.Println log.Print (*log.Logger).Printf (*log.Logger).Println (*log.Logger).Print (*log.Logger).Output", noop)

	// ---- sync/atomic on plain words and typed wrappers
	reg("sync/atomic.AddInt32 sync/atomic.AddInt64 sync/atomic.AddUint32 sync/atomic.AddUint64", func(it *Interp, fr *frame, fn *ssa.Function, args []Value) Value {
		p := it.derefPtr(fr, args[0])
		nv := bvBin("bvadd", (*p).(*Term), args[1].(*Term))
		it.storeAt(p, nv)
		return nv
	})
	reg("sync/atomic.LoadInt32 sync/atomic.LoadInt64 sync/atomic.LoadUint32 sync/atomic.LoadUint64 sync/atomic.LoadPointer", func(it *Interp, fr *frame, fn *ssa.Function, args []Value) Value {
		return *it.derefPtr(fr, args[0])
	})
	reg("sync/atomic.StoreInt32 sync/atomic.StoreInt64 sync/atomic.StoreUint32 sync/atomic.StoreUint64", func(it *Interp, fr *frame, fn *ssa.Function, args []Value) Value {
		it.storeAt(it.derefPtr(fr, args[0]), args[1])
		return nil
	})
	reg("sync/atomic.CompareAndSwapInt32 sync/atomic.CompareAndSwapInt64 sync/atomic.CompareAndSwapUint32 sync/atomic.CompareAndSwapUint64", func(it *Interp, fr *frame, fn *ssa.Function, args []Value) Value {
		p := it.derefPtr(fr, args[0])
		if it.ex.branch(mkEq((*p).(*Term), args[1].(*Term))) {
			it.storeAt(p, args[2])
			return tTrue
		}
		return tFalse
	})
	for _, T := range []string{"Int32", "Int64", "Uint32", "Uint64", "Bool", "Uintptr"} {
		T := T
		vfield := func(it *Interp, fr *frame, recv Value) *Value {
			st := (*it.derefPtr(fr, recv)).(Struct)
			return &st[len(st)-1]
		}
		reg("(*sync/atomic."+T+").Load", func(it *Interp, fr *frame, fn *ssa.Function, args []Value) Value {
			v := *vfield(it, fr, args[0])
			if T == "Bool" {
				return mkNot(mkEq(v.(*Term), mkBV(32, 0)))
			}
			return v
		})
		reg("(*sync/atomic."+T+").Store", func(it *Interp, fr *frame, fn *ssa.Function, args []Value) Value {
			v := args[1]
			if T == "Bool" {
				v = mkIte(v.(*Term), mkBV(32, 1), mkBV(32, 0))
			}
			it.storeAt(vfield(it, fr, args[0]), v)
			return nil
		})
		reg("(*sync/atomic."+T+").Add", func(it *Interp, fr *frame, fn *ssa.Function, args []Value) Value {
			p := vfield(it, fr, args[0])
			nv := bvBin("bvadd", (*p).(*Term), args[1].(*Term))
			it.storeAt(p, nv)
			return nv
		})
		reg("(*sync/atomic."+T+").CompareAndSwap", func(it *Interp, fr *frame, fn *ssa.Function, args []Value) Value {
			p := vfield(it, fr, args[0])
			old, nw := args[1], args[2]
			if T == "Bool" {
				old = mkIte(old.(*Term), mkBV(32, 1), mkBV(32, 0))
				nw = mkIte(nw.(*Term), mkBV(32, 1), mkBV(32, 0))
			}
			if it.ex.branch(mkEq((*p).(*Term), old.(*Term))) {
				it.storeAt(p, nw)
				return tTrue
			}
			return tFalse
		})
		reg("(*sync/atomic."+T+").Swap", func(it *Interp, fr *frame, fn *ssa.Function, args []Value) Value {
			p := vfield(it, fr, args[0])
			old := *p
			nw := args[1]
			if T == "Bool" {
				nw = mkIte(nw.(*Term), mkBV(32, 1), mkBV(32, 0))
				it.storeAt(p, nw)
				return mkNot(mkEq(old.(*Term), mkBV(32, 0)))
			}
			it.storeAt(p, nw)
			return old
		})
	}
	reg("(*sync/atomic.Value).Load", func(it *Interp, fr *frame, fn *ssa.Function, args []Value) Value {
		st := (*it.derefPtr(fr, args[0])).(Struct)
		return st[0]
	})
	reg("(*sync/atomic.Value).Store", func(it *Interp, fr *frame, fn *ssa.Function, args []Value) Value {
		st := (*it.derefPtr(fr, args[0])).(Struct)
		it.storeAt(&st[0], args[1])
		return nil
	})
	reg("(*sync/atomic.Pointer).Load", func(it *Interp, fr *frame, fn *ssa.Function, args []Value) Value {
		st := (*it.derefPtr(fr, args[0])).(Struct)
		v := st[len(st)-1]
		if p, ok := v.(*Value); ok && p == nil {
			return (*Value)(nil)
		}
		return v
	})
	reg("(*sync/atomic.Pointer).Store", func(it *Interp, fr *frame, fn *ssa.Function, args []Value) Value {
		st := (*it.derefPtr(fr, args[0])).(Struct)
		it.storeAt(&st[len(st)-1], args[1])
		return nil
	})

	// ---- reflectlite / misc runtime
	reg("internal/reflectlite.TypeOf", func(it *Interp, fr *frame, fn *ssa.Function, args []Value) Value {
		x := args[0].(Iface)
		o := &nativeObj{typ: &nativeType{"reflectlite.Type"}, methods: map[string]*Native{}}
		o.methods["Comparable"] = &Native{name: "Comparable", fn: func(fr *frame, a []Value) Value {
			return mkBool(x.t != nil && types.Comparable(x.t))
		}}
		o.methods["String"] = &Native{name: "String", fn: func(fr *frame, a []Value) Value {
			if x.t == nil {
				return mkStr("<nil>")
			}
			return mkStr(x.t.String())
		}}
		o.methods["Elem"] = &Native{name: "Elem", fn: func(fr *frame, a []Value) Value {
			e := &nativeObj{typ: &nativeType{"reflectlite.Type"}, methods: map[string]*Native{}}
			return Iface{t: e.typ, v: e}
		}}
		return Iface{t: o.typ, v: o}
	})
	reg("reflect.TypeOf", func(it *Interp, fr *frame, fn *ssa.Function, args []Value) Value {
		x := args[0].(Iface)
		o := &nativeObj{typ: &nativeType{"reflect.Type"}, methods: map[string]*Native{}, data: x.t}
		o.methods["String"] = &Native{name: "String", fn: func(fr *frame, a []Value) Value {
			if x.t == nil {
				return mkStr("<nil>")
			}
			return mkStr(x.t.String())
		}}
		return Iface{t: o.typ, v: o}
	})
	reg("time.runtimeNano", func(it *Interp, fr *frame, fn *ssa.Function, args []Value) Value { return mkInt(1) })
	reg("time.Sleep", noop)
	// time.Now: an arbitrary instant that never goes backwards. wall carries no
	// monotonic reading; ext holds seconds since year 1 (symbolic, within +-2^40 of a
	// fixed epoch so that second arithmetic cannot overflow); nanoseconds are zero.
	reg("time.Now", func(it *Interp, fr *frame, fn *ssa.Function, args []Value) Value {
		var sec *Term
		if it.mstate.manualClock {
			// the harness advances the clock explicitly (verifAdvanceClock)
			sec = it.clockTerm()
		} else {
			sec = it.newNondet("time.Now", "int64", 64)
			base := int64(63900000000) // ~ year 2025 in seconds since year 1
			c := mkAnd(bvCmp("bvsge", sec, mkInt(base)), bvCmp("bvsle", sec, mkInt(base+(1<<40))))
			if it.mstate.lastNow != nil {
				c = mkAnd(c, bvCmp("bvsge", sec, it.mstate.lastNow))
			}
			it.ex.assume(c)
			it.mstate.lastNow = sec
		}
		loc := it.globalAddr(it.prog.ImportedPackage("time").Var("localLoc"))
		return Struct{mkBV(64, 0), sec, loc}
	})
	reg("os.Getenv", func(it *Interp, fr *frame, fn *ssa.Function, args []Value) Value {
		return mkStr(os.Getenv(asStr(args[0]).s))
	})
	reg("os.LookupEnv", func(it *Interp, fr *frame, fn *ssa.Function, args []Value) Value {
		v, ok := os.LookupEnv(asStr(args[0]).s)
		return Tuple{mkStr(v), mkBool(ok)}
	})
	reg("(crypto.Hash).Available", func(it *Interp, fr *frame, fn *ssa.Function, args []Value) Value {
		h := args[0].(*Term).cv
		return mkBool(h == 5 || h == 6 || h == 7) // SHA256, SHA384, SHA512
	})
	reg("internal/godebug.New", func(it *Interp, fr *frame, fn *ssa.Function, args []Value) Value {
		cell := zero(deref(fn.Signature.Results().At(0).Type()))
		return &cell
	})
	reg("(*internal/godebug.Setting).Value", func(it *Interp, fr *frame, fn *ssa.Function, args []Value) Value { return mkStr("") })
	reg("(*internal/godebug.Setting).IncNonDefault", noop)
}

func asciiLower(b *Term) *Term {
	if b.isConst() {
		c := byte(b.cv)
		if c >= 'A' && c <= 'Z' {
			c += 'a' - 'A'
		}
		return mkBV(8, uint64(c))
	}
	isUp := mkAnd(bvCmp("bvuge", b, mkBV(8, 'A')), bvCmp("bvule", b, mkBV(8, 'Z')))
	return mkIte(isUp, bvBin("bvadd", b, mkBV(8, 'a'-'A')), b)
}

func asciiUpper(b *Term) *Term {
	if b.isConst() {
		c := byte(b.cv)
		if c >= 'a' && c <= 'z' {
			c -= 'a' - 'A'
		}
		return mkBV(8, uint64(c))
	}
	isLo := mkAnd(bvCmp("bvuge", b, mkBV(8, 'a')), bvCmp("bvule", b, mkBV(8, 'z')))
	return mkIte(isLo, bvBin("bvsub", b, mkBV(8, 'a'-'A')), b)
}

func isZeroish(v Value) bool {
	switch v := v.(type) {
	case *Term:
		return v.isConst() && v.cv == 0
	case Struct:
		return isZeroish(v[len(v)-1])
	}
	return false
}

func oneLike(v Value) Value {
	switch v := v.(type) {
	case *Term:
		return mkBV(int(v.sort), 1)
	case Struct:
		c := copyVal(v).(Struct)
		c[len(c)-1] = oneLike(c[len(c)-1])
		return c
	}
	panic("oneLike")
}

// ---- mutexes (held flag stored in engine-side table keyed by address)

type mutexState struct {
	writer  bool
	readers int
	owner   *goroutine
}

func (it *Interp) mutexTable() map[*Value]*mutexState {
	m, ok := it.mstate.perPath["mutex"].(map[*Value]*mutexState)
	if !ok {
		m = map[*Value]*mutexState{}
		it.mstate.perPath["mutex"] = m
	}
	return m
}

func (it *Interp) mutexLock(fr *frame, p *Value, write bool) {
	it.impure("mutex")
	if p == nil {
		panic(targetPanic{implicit: "invalid memory address or nil pointer dereference (nil mutex)"})
	}
	tab := it.mutexTable()
	st := tab[p]
	if st == nil {
		st = &mutexState{}
		tab[p] = st
	}
	it.yieldPoint(fr, "lock")
	free := func() bool { return !st.writer && (st.readers == 0 || !write) }
	it.blockUntil(fr, "mutex", free)
	if write {
		st.writer = true
		st.owner = fr.g
	} else {
		st.readers++
	}
	if it.lockLog != nil {
		it.lockLog.lock(fr, p)
	}
	it.noteLockOrder(fr)
}

// noteLockOrder records which goroutine acquired a mutex of the package under test (the
// mutexes the native replay build replaces by order-enforcing ones).
func (it *Interp) noteLockOrder(fr *frame) {
	if fr != nil && fr.fn != nil && fr.fn.Name() == "Lock" {
		fr = fr.caller // the model's own frame: look at the caller
	}
	if it.sched == nil || len(it.sched.gs) < 2 || fr == nil || fr.fn == nil {
		return
	}
	pkg := fr.fn.Package()
	if pkg == nil && fr.fn.Origin() != nil {
		pkg = fr.fn.Origin().Package()
	}
	if pkg == nil && fr.fn.Parent() != nil {
		pkg = fr.fn.Parent().Package()
	}
	// (every mutex of the repository's own packages: those are the ones the replay build
	// replaces; harness code and the standard library are not)
	if pkg == nil || !strings.HasPrefix(pkg.Pkg.Path(), it.repoPrefix) || strings.HasPrefix(fr.fn.Name(), "verif") || strings.HasPrefix(fr.fn.Name(), "Verif") {
		return
	}
	id := 0
	if fr.g != nil {
		id = fr.g.id
	}
	it.mstate.lockOrder = append(it.mstate.lockOrder, id)
}

func (it *Interp) mutexTryLock(fr *frame, p *Value) bool {
	it.impure("mutex")
	tab := it.mutexTable()
	st := tab[p]
	if st == nil {
		st = &mutexState{}
		tab[p] = st
	}
	if st.writer || st.readers > 0 {
		return false
	}
	st.writer = true
	st.owner = fr.g
	if it.lockLog != nil {
		it.lockLog.lock(fr, p)
	}
	return true
}

func (it *Interp) mutexUnlock(fr *frame, p *Value, write bool) {
	it.impure("mutex")
	tab := it.mutexTable()
	st := tab[p]
	if st == nil || (write && !st.writer) || (!write && st.readers == 0) {
		panic(targetPanic{implicit: "sync: unlock of unlocked mutex"})
	}
	if write {
		st.writer = false
		st.owner = nil
	} else {
		st.readers--
	}
	if it.lockLog != nil {
		it.lockLog.unlock(fr, p)
	}
	it.yieldPoint(fr, "unlock")
}

func init() {
	for _, w := range []int{8, 16, 32, 64} {
		w := w
		name := "math/bits.OnesCount" + fmt.Sprint(w)
		if w == 64 {
			reg("math/bits.OnesCount", func(it *Interp, fr *frame, fn *ssa.Function, args []Value) Value {
				return popcount(args[0].(*Term), 64)
			})
		}
		reg(name, func(it *Interp, fr *frame, fn *ssa.Function, args []Value) Value {
			return popcount(args[0].(*Term), w)
		})
	}
}

func popcount(x *Term, w int) *Term {
	if x.isConst() {
		n := 0
		for v := x.cv; v != 0; v &= v - 1 {
			n++
		}
		return mkInt(int64(n))
	}
	sum := mkInt(0)
	for i := 0; i < w; i++ {
		sum = bvBin("bvadd", sum, bvZext(bvExtract(x, i, i), 64))
	}
	return sum
}

func init() {
	// crypto/rand: each call yields a different concrete value (collision-free IDs);
	// the randomness itself is not part of any property here.
	reg("crypto/rand.Read", func(it *Interp, fr *frame, fn *ssa.Function, args []Value) Value {
		it.impure("rand")
		it.mstate.assumptions["crypto/rand.Read returns a distinct concrete value per call (ID collisions are outside the claim)"] = true
		sl := args[0].(Slice)
		n, _ := it.mstate.perPath["rand"].(int)
		n++
		it.mstate.perPath["rand"] = n
		for i := range sl.a {
			it.storeAt(&sl.a[i], mkBV(8, uint64((n*131+i*7)&0xff)))
		}
		return Tuple{mkInt(int64(len(sl.a))), Iface{}}
	})
}

// clockTerm is the manual clock's current reading (seconds since year 1).
func (it *Interp) clockTerm() *Term {
	if it.mstate.lastNow == nil {
		it.mstate.lastNow = mkInt(63900000000)
	}
	return it.mstate.lastNow
}

// ---- sync.WaitGroup (counter kept in an engine-side table)

func (it *Interp) wgTable() map[*Value]*int {
	m, ok := it.mstate.perPath["wg"].(map[*Value]*int)
	if !ok {
		m = map[*Value]*int{}
		it.mstate.perPath["wg"] = m
	}
	return m
}

func init() {
	reg("(*sync.WaitGroup).Add", func(it *Interp, fr *frame, fn *ssa.Function, args []Value) Value {
		it.impure("waitgroup")
		p := args[0].(*Value)
		tab := it.wgTable()
		if tab[p] == nil {
			tab[p] = new(int)
		}
		*tab[p] += int(it.concreteInt(args[1], "WaitGroup.Add"))
		if *tab[p] < 0 {
			panic(targetPanic{implicit: "sync: negative WaitGroup counter"})
		}
		it.yieldPoint(fr, "wg.add")
		return nil
	})
	reg("(*sync.WaitGroup).Done", func(it *Interp, fr *frame, fn *ssa.Function, args []Value) Value {
		it.impure("waitgroup")
		p := args[0].(*Value)
		tab := it.wgTable()
		if tab[p] == nil {
			tab[p] = new(int)
		}
		if it.lockLog != nil {
			it.lockLog.release(it.sched.cur, p)
		}
		*tab[p]--
		if *tab[p] < 0 {
			panic(targetPanic{implicit: "sync: negative WaitGroup counter"})
		}
		it.yieldPoint(fr, "wg.done")
		return nil
	})
	reg("(*sync.WaitGroup).Wait", func(it *Interp, fr *frame, fn *ssa.Function, args []Value) Value {
		it.impure("waitgroup")
		p := args[0].(*Value)
		tab := it.wgTable()
		if tab[p] == nil {
			tab[p] = new(int)
		}
		c := tab[p]
		it.blockUntil(fr, "WaitGroup.Wait", func() bool { return *c == 0 })
		if it.lockLog != nil {
			it.lockLog.acquire(it.sched.cur, p)
		}
		return nil
	})
}
