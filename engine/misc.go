package main

import (
	"fmt"
	"go/types"
	"sort"
)

// ---- atoms: strings known only up to equality and order

// rankBits: atom ranks are unsigned bit-vectors (pure QF_BV is faster than mixing in
// LIA); 2^16 distinct strings per path are plenty.
const rankBits = 16

func (it *Interp) rankOf(s Str) *Term {
	if s.atom != nil {
		return s.atom
	}
	if !s.isConcrete() {
		panic(unsupported("comparison of an atom string with a byte-symbolic string"))
	}
	return it.constRank(s.s)
}

// constRank returns the Int rank variable of a concrete string, asserting the order
// axioms relative to the constants registered so far (valid facts, so they may live in
// any solver frame; the registration is dropped when that frame is popped).
func (it *Interp) constRank(s string) *Term {
	ex := it.ex
	// drop registrations from popped frames
	live := ex.atomConsts[:0]
	for _, c := range ex.atomConsts {
		if c.level <= ex.solver.level && c.gen == ex.solver.levelGen[c.level] {
			live = append(live, c)
		}
	}
	ex.atomConsts = live
	for _, c := range ex.atomConsts {
		if c.s == s {
			return c.rank
		}
	}
	if s == "" {
		r := mkBV(rankBits, 0)
		return r
	}
	r := mkVar(fmt.Sprintf("rank_%x", s), rankBits)
	ex.solver.Assert(bvCmp("bvugt", r, mkBV(rankBits, 0)))
	for _, c := range ex.atomConsts {
		if c.s < s {
			ex.solver.Assert(bvCmp("bvult", c.rank, r))
		} else {
			ex.solver.Assert(bvCmp("bvult", r, c.rank))
		}
	}
	ex.atomConsts = append(ex.atomConsts, atomConst{s: s, rank: r, level: ex.solver.level, gen: ex.solver.levelGen[ex.solver.level]})
	sort.Slice(ex.atomConsts, func(i, j int) bool { return ex.atomConsts[i].s < ex.atomConsts[j].s })
	return r
}

// ---- native objects: engine-implemented values behind interfaces

type nativeType struct {
	name string
}

func (t *nativeType) Underlying() types.Type { return t }
func (t *nativeType) String() string         { return "native:" + t.name }

type nativeObj struct {
	typ     *nativeType
	methods map[string]*Native
	data    interface{}
}

func (o *nativeObj) method(name string) *Native { return o.methods[name] }

// universeEntry is a member of the finite content universe used by the digest model.
type universeEntry struct {
	alg     string
	content []Value
	digest  string
}
