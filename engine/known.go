package main

import (
	"bufio"
	"encoding/json"
	"fmt"
	"os"
	"strconv"
	"strings"

	"golang.org/x/tools/go/ssa"
)

// knownFinding is one line of /verif/known_findings.jsonl.
//
//	status    "known" | "fixed"
//	property  C01...
//	harness   harness function name ("" = any harness of the property)
//	label     assertion label, or "no-panic" for panics
//	exclusion s-expression over nondet names, e.g. (= o0 o1); "" = always
//	where     for panics: substring that must occur in the panic location/stack
type knownFinding struct {
	ID        string `json:"id"`
	Status    string `json:"status"`
	Property  string `json:"property"`
	Harness   string `json:"harness"`
	Label     string `json:"label"`
	Exclusion string `json:"exclusion"`
	Where     string `json:"where"`
	What      string `json:"what"`
	Commit    string `json:"commit,omitempty"`
}

func loadKnown(path, property, harness string) []knownFinding {
	f, err := os.Open(path)
	if err != nil {
		return nil
	}
	defer f.Close()
	var out []knownFinding
	sc := bufio.NewScanner(f)
	sc.Buffer(make([]byte, 1<<20), 1<<20)
	for sc.Scan() {
		line := strings.TrimSpace(sc.Text())
		if line == "" || strings.HasPrefix(line, "#") {
			continue
		}
		var k knownFinding
		if json.Unmarshal([]byte(line), &k) != nil {
			continue
		}
		if k.Status != "known" {
			continue // fixed entries suppress nothing
		}
		if k.Property != property {
			continue
		}
		if k.Harness != "" && k.Harness != harness {
			continue
		}
		out = append(out, k)
	}
	return out
}

// knownExclusion builds the Bool term of a finding's exclusion predicate over the
// nondet variables created so far on this path; nil if it cannot be built (then the
// finding does not apply on this path).
func (it *Interp) knownExclusion(k knownFinding) *Term {
	if strings.TrimSpace(k.Exclusion) == "" {
		return tTrue
	}
	toks := tokenize(k.Exclusion)
	pos := 0
	var parse func() (*Term, bool)
	lookup := func(name string) *Term {
		want := name
		occ := 0
		if i := strings.IndexByte(name, '!'); i >= 0 {
			want = name[:i]
			occ, _ = strconv.Atoi(name[i+1:])
		}
		n := 0
		for _, nd := range it.ex.nondets {
			if nd.Name == want {
				if n == occ {
					if nd.useConc {
						return mkInt(nd.conc)
					}
					return nd.term
				}
				n++
			}
		}
		return nil
	}
	parse = func() (*Term, bool) {
		if pos >= len(toks) {
			return nil, false
		}
		tok := toks[pos]
		pos++
		if tok != "(" {
			if tok == "true" {
				return tTrue, true
			}
			if tok == "false" {
				return tFalse, true
			}
			if n, err := strconv.ParseInt(tok, 10, 64); err == nil {
				return mkInt(n), true
			}
			t := lookup(tok)
			if t == nil {
				// a name that does not exist on this path reads as -1
				t = mkInt(-1)
			}
			return t, true
		}
		op := toks[pos]
		pos++
		var args []*Term
		for pos < len(toks) && toks[pos] != ")" {
			a, ok := parse()
			if !ok {
				return nil, false
			}
			args = append(args, a)
		}
		pos++
		// harmonise widths of constants with the other operand
		if len(args) == 2 {
			for i := 0; i < 2; i++ {
				if args[i].isConst() && args[i].sort == 64 && args[1-i].sort != 64 && args[1-i].sort > 0 {
					args[i] = mkBV(int(args[1-i].sort), args[i].cv)
				}
				if args[i].isConst() && args[1-i].sort == SInt {
					args[i] = mkIntConst(args[i].sval())
				}
			}
		}
		switch op {
		case "and":
			return mkAnd(args...), true
		case "or":
			return mkOr(args...), true
		case "not":
			return mkNot(args[0]), true
		case "=":
			return mkEq(args[0], args[1]), true
		case "<", "<=", ">", ">=":
			if args[0].sort == SInt {
				return intCmp(op, args[0], args[1]), true
			}
			return bvCmp(map[string]string{"<": "bvslt", "<=": "bvsle", ">": "bvsgt", ">=": "bvsge"}[op], args[0], args[1]), true
		case "+":
			return bvBin("bvadd", args[0], args[1]), true
		case "-":
			return bvBin("bvsub", args[0], args[1]), true
		}
		return nil, false
	}
	t, ok := parse()
	if !ok {
		return nil
	}
	return t
}

// knownPanic returns the id of a listed finding matching this panic.
func (it *Interp) knownPanic(p targetPanic) string {
	where := strings.Join(it.stackTrace(), " <- ") + " " + p.String()
	for _, k := range it.ex.known {
		if k.Label != "no-panic" {
			continue
		}
		if k.Where != "" && !strings.Contains(where, k.Where) {
			continue
		}
		if t := it.knownExclusion(k); t != nil {
			if t.isTrue() {
				return k.ID
			}
			if it.ex.solver.CheckWith(t) == Sat {
				// the model must be re-established for recordViolation
				it.ex.solver.Push()
				it.ex.solver.Assert(t)
				it.ex.solver.Check()
				defer it.ex.solver.Pop()
				return k.ID
			}
		}
	}
	return ""
}

// nativeGlobal supplies values for globals of packages whose init is not interpreted.
func (it *Interp) nativeGlobal(g *ssa.Global) (Value, bool) {
	if f, ok := nativeGlobals[g.Pkg.Pkg.Path()+"."+g.Name()]; ok {
		return f(it, g), true
	}
	return nil, false
}

var nativeGlobals map[string]func(it *Interp, g *ssa.Global) Value

func init() {
	nativeGlobals = map[string]func(it *Interp, g *ssa.Global) Value{
		"internal/cpu.X86":           zeroGlobal,
		"internal/cpu.ARM64":         zeroGlobal,
		"internal/cpu.CacheLineSize": zeroGlobal,
		"regexp.matchSize":           zeroGlobal,
		"internal/godebug.empty":     zeroGlobal,
		"os.ErrNotExist":             func(it *Interp, g *ssa.Global) Value { return it.errorString("file does not exist") },
		"os.ErrProcessDone":          func(it *Interp, g *ssa.Global) Value { return it.errorString("os: process already finished") },
		"os.Stderr":                  zeroGlobal,
		"os.Stdout":                  zeroGlobal,
		"os.Args":                    zeroGlobal,
	}
}

func zeroGlobal(it *Interp, g *ssa.Global) Value { return zero(deref(g.Type())) }

func cmdCheckStub() { fmt.Println() }

func (it *Interp) loadVector(path string) error {
	data, err := os.ReadFile(path)
	if err != nil {
		return err
	}
	var doc struct {
		Vector []replayItem `json:"vector"`
	}
	if err := json.Unmarshal(data, &doc); err != nil {
		return err
	}
	it.vector = nil
	for _, item := range doc.Vector {
		if item.Kind != "lockorder" {
			it.vector = append(it.vector, item)
		}
	}
	if it.vector == nil {
		it.vector = []replayItem{}
	}
	return nil
}
