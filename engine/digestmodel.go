package main

// Digest model. SHA-2 cannot be executed symbolically, so:
//   - fully concrete content is hashed natively (exact);
//   - symbolic content is looked up in the path's finite content universe: if it can
//     equal an earlier member (a solver-decided fork) it gets that member's digest,
//     otherwise a fresh, well-formed, pairwise distinct digest constant.
// Assumption (recorded in the evidence): the hash is injective on the contents digested
// along one path, and the hex text of a digest of symbolic content carries no meaning
// beyond equality. On native replay the real hash is used, so a counterexample that
// depended on the literal fake constants would not reproduce.

import (
	"crypto/sha256"
	"crypto/sha512"
	"encoding/hex"
	"fmt"
	"go/types"

	"golang.org/x/tools/go/ssa"
)

func nativeHash(alg string, data []byte) (string, bool) {
	switch alg {
	case "sha256":
		s := sha256.Sum256(data)
		return hex.EncodeToString(s[:]), true
	case "sha384":
		s := sha512.Sum384(data)
		return hex.EncodeToString(s[:]), true
	case "sha512":
		s := sha512.Sum512(data)
		return hex.EncodeToString(s[:]), true
	}
	return "", false
}

func hexLen(alg string) int {
	switch alg {
	case "sha256":
		return 64
	case "sha384":
		return 96
	case "sha512":
		return 128
	}
	return 0
}

// valsOf converts bytes to the universe's content representation.
func termsToVals(bs []*Term) []Value {
	out := make([]Value, len(bs))
	for i, b := range bs {
		out[i] = b
	}
	return out
}

func valsAllConst(vs []Value) bool {
	for _, v := range vs {
		t, ok := v.(*Term)
		if !ok || !t.isConst() {
			return false
		}
	}
	return true
}

// valsEqual: equality of two contents; elements are byte terms or opaque JSON blobs
// (compared structurally).
func (it *Interp) valsEqual(a, b []Value) *Term {
	if len(a) != len(b) {
		return tFalse
	}
	var cs []*Term
	for i := range a {
		switch x := a[i].(type) {
		case *Term:
			y, ok := b[i].(*Term)
			if !ok {
				return tFalse
			}
			cs = append(cs, mkEq(x, y))
		case *jsonBlob:
			y, ok := b[i].(*jsonBlob)
			if !ok {
				return tFalse
			}
			cs = append(cs, it.jsonEq(x.root, y.root))
		default:
			return tFalse
		}
	}
	return mkAnd(cs...)
}

func (it *Interp) jsonEq(a, b *jnode) *Term {
	if a == b {
		return tTrue
	}
	if a.kind != b.kind {
		return tFalse
	}
	switch a.kind {
	case 'z':
		return tTrue
	case 'b':
		return mkEq(a.b, b.b)
	case 'n':
		return mkEq(a.num, b.num)
	case 'f':
		return mkBool(a.f == b.f)
	case 's':
		x, y := a.str.force(), b.str.force()
		if x.isAtom() || y.isAtom() {
			return it.strEqV(x, y)
		}
		return strEq(x, y)
	case 'r':
		return it.valsEqual(a.raw, b.raw)
	case 'a':
		if len(a.elems) != len(b.elems) {
			return tFalse
		}
		var cs []*Term
		for i := range a.elems {
			cs = append(cs, it.jsonEq(a.elems[i], b.elems[i]))
		}
		return mkAnd(cs...)
	case 'o':
		if len(a.fields) != len(b.fields) {
			return tFalse
		}
		var cs []*Term
		for i := range a.fields {
			cs = append(cs, it.strEqV(a.fields[i].keyS, b.fields[i].keyS), it.jsonEq(a.fields[i].val, b.fields[i].val))
		}
		return mkAnd(cs...)
	}
	return tFalse
}

func (it *Interp) digestOf(alg string, contentT []*Term) Str {
	return it.digestOfVals(alg, termsToVals(contentT))
}

func (it *Interp) digestOfVals(alg string, content []Value) Str {
	n := hexLen(alg)
	if n == 0 {
		panic(unsupported("digest with algorithm " + alg))
	}
	concrete := valsAllConst(content)
	var raw []byte
	if concrete {
		raw = make([]byte, len(content))
		for i, t := range content {
			raw[i] = byte(t.(*Term).cv)
		}
	}
	// equal to an earlier member of the universe?
	for _, e := range it.mstate.universe {
		if e.alg != alg || len(e.content) != len(content) {
			continue
		}
		eq := it.valsEqual(e.content, content)
		if eq.isFalse() {
			continue
		}
		if eq.isTrue() || it.ex.branch(eq) {
			return mkStr(alg + ":" + e.digest)
		}
	}
	var d string
	if concrete {
		d, _ = nativeHash(alg, raw)
	} else {
		it.mstate.assumptions["digest model: hashes of symbolic contents are distinct constants (injective on the contents digested along a path); concrete contents are hashed natively"] = true
		it.mstate.fakeDigests++
		d = fmt.Sprintf("%0*x", n, 0xfa4e0000+it.mstate.fakeDigests)
		// keep clear of real digests: start with the marker "5e" repeated
		d = "5e5e" + d[4:]
	}
	it.mstate.universe = append(it.mstate.universe, universeEntry{alg: alg, content: content, digest: d})
	return mkStr(alg + ":" + d)
}

// hashObj is the engine-side hash.Hash.
type hashObj struct {
	alg  string
	data []Value
}

func (it *Interp) newHashObj(alg string) Value {
	h := &hashObj{alg: alg}
	o := &nativeObj{typ: &nativeType{"hash.Hash(" + alg + ")"}, methods: map[string]*Native{}, data: h}
	o.methods["Write"] = &Native{name: "Write", fn: func(fr *frame, a []Value) Value {
		it.impure("hash write")
		bs := a[0].(Slice).a
		old := h.data
		it.ex.journal = append(it.ex.journal, undoEntry{fn: func() { h.data = old }})
		h.data = append(append([]Value{}, h.data...), bs...)
		return Tuple{mkInt(int64(len(bs))), Iface{}}
	}}
	o.methods["Reset"] = &Native{name: "Reset", fn: func(fr *frame, a []Value) Value {
		it.impure("hash reset")
		h.data = nil
		return nil
	}}
	o.methods["Size"] = &Native{name: "Size", fn: func(fr *frame, a []Value) Value { return mkInt(int64(hexLen(alg) / 2)) }}
	o.methods["BlockSize"] = &Native{name: "BlockSize", fn: func(fr *frame, a []Value) Value { return mkInt(64) }}
	o.methods["Sum"] = &Native{name: "Sum", fn: func(fr *frame, a []Value) Value {
		panic(unsupported("hash.Hash.Sum (raw hash bytes) is outside the digest model"))
	}}
	return Iface{t: o.typ, v: o}
}

func init() {
	const pkg = "github.com/opencontainers/go-digest."
	reg(pkg+"FromBytes", func(it *Interp, fr *frame, fn *ssa.Function, args []Value) Value {
		return it.digestOfVals("sha256", args[0].(Slice).a)
	})
	reg(pkg+"FromString", func(it *Interp, fr *frame, fn *ssa.Function, args []Value) Value {
		return it.digestOf("sha256", asStr(args[0]).bytes())
	})
	reg("("+pkg+"Algorithm).FromBytes", func(it *Interp, fr *frame, fn *ssa.Function, args []Value) Value {
		return it.digestOfVals(asStr(args[0]).s, args[1].(Slice).a)
	})
	reg("("+pkg+"Algorithm).FromString", func(it *Interp, fr *frame, fn *ssa.Function, args []Value) Value {
		return it.digestOf(asStr(args[0]).s, asStr(args[1]).bytes())
	})
	reg("("+pkg+"Algorithm).Hash", func(it *Interp, fr *frame, fn *ssa.Function, args []Value) Value {
		a := asStr(args[0])
		if !a.isConcrete() {
			panic(unsupported("Algorithm.Hash on a symbolic algorithm name"))
		}
		if hexLen(a.s) == 0 {
			// go-digest panics for unavailable algorithms
			panic(targetPanic{v: Iface{t: types.Typ[types.String], v: mkStr(a.s + " not available (make sure it is imported)")}})
		}
		return it.newHashObj(a.s)
	})
	reg(pkg+"NewDigest", func(it *Interp, fr *frame, fn *ssa.Function, args []Value) Value {
		alg := asStr(args[0])
		h := it.resolveNil(fr, args[1]).(Iface)
		no, ok := h.v.(*nativeObj)
		if !ok {
			panic(unsupported("digest.NewDigest with a foreign hash.Hash"))
		}
		ho := no.data.(*hashObj)
		if !alg.isConcrete() {
			panic(unsupported("digest.NewDigest with symbolic algorithm"))
		}
		return it.digestOfVals(alg.s, ho.data)
	})
}
