package main

import "os"

// A cheap sound pre-check for branch conditions: unsigned-interval evaluation of terms
// under the simple variable bounds harvested from the path condition (var <= c,
// var >= c, var == c). If the interval evaluation decides a condition, no solver call
// and no decision point is needed (the condition is implied by the path condition).
// The solver remains the authority for everything that is not decided here.

type ival struct {
	lo, hi uint64
	ok     bool
}

type boundsMap map[string]ival

func fullRange(w Sort) ival { return ival{0, mask(w), true} }

func (e *Explorer) boundOf(t *Term) ival {
	if b, ok := e.bounds[t.name]; ok {
		return b
	}
	return fullRange(t.sort)
}

// evalIv returns an interval containing every value t can take.
func (e *Explorer) evalIv(t *Term, depth int) ival {
	if t.sort <= 0 {
		return ival{}
	}
	if t.isConst() {
		return ival{t.cv, t.cv, true}
	}
	if depth <= 0 {
		return fullRange(t.sort)
	}
	w := t.sort
	m := mask(w)
	switch t.op {
	case "var":
		return e.boundOf(t)
	case "bvadd":
		a, b := e.evalIv(t.args[0], depth-1), e.evalIv(t.args[1], depth-1)
		if a.ok && b.ok {
			hi := a.hi + b.hi
			if hi >= a.hi && hi <= m { // no wrap-around
				return ival{a.lo + b.lo, hi, true}
			}
			// both wrap entirely (e.g. x + 0xD0 meaning x - 0x30 with x >= 0x30)
			lo := a.lo + b.lo
			if lo >= a.lo && lo > m && w < 64 {
				return ival{lo & m, hi & m, true}
			}
		}
	case "bvsub":
		a, b := e.evalIv(t.args[0], depth-1), e.evalIv(t.args[1], depth-1)
		if a.ok && b.ok && a.lo >= b.hi {
			return ival{a.lo - b.hi, a.hi - b.lo, true}
		}
	case "bvmul":
		a, b := e.evalIv(t.args[0], depth-1), e.evalIv(t.args[1], depth-1)
		if a.ok && b.ok && (b.hi == 0 || a.hi <= m/maxU(b.hi, 1)) {
			return ival{a.lo * b.lo, a.hi * b.hi, true}
		}
	case "zext":
		return e.evalIv(t.args[0], depth-1)
	case "sext":
		a := e.evalIv(t.args[0], depth-1)
		if a.ok && a.hi < uint64(1)<<(uint(t.args[0].sort)-1) {
			return a
		}
	case "extract":
		// only low extracts are produced with lo == 0 in practice; parse from name
		a := e.evalIv(t.args[0], depth-1)
		if a.ok && a.hi <= m && hasSuffix(t.name, " 0)") {
			return a
		}
	case "bvand":
		a, b := e.evalIv(t.args[0], depth-1), e.evalIv(t.args[1], depth-1)
		hi := m
		if a.ok && a.hi < hi {
			hi = a.hi
		}
		if b.ok && b.hi < hi {
			hi = b.hi
		}
		return ival{0, hi, true}
	case "bvlshr":
		a, b := e.evalIv(t.args[0], depth-1), e.evalIv(t.args[1], depth-1)
		if a.ok && b.ok && b.lo == b.hi && b.lo < 64 {
			return ival{a.lo >> b.lo, a.hi >> b.lo, true}
		}
	case "ite":
		c := e.evalBool(t.args[0], depth-1)
		if c == 1 {
			return e.evalIv(t.args[1], depth-1)
		}
		if c == 0 {
			return e.evalIv(t.args[2], depth-1)
		}
		a, b := e.evalIv(t.args[1], depth-1), e.evalIv(t.args[2], depth-1)
		if a.ok && b.ok {
			return ival{minU(a.lo, b.lo), maxU(a.hi, b.hi), true}
		}
	}
	return fullRange(w)
}

func hasSuffix(s, suf string) bool { return len(s) >= len(suf) && s[len(s)-len(suf):] == suf }

func minU(a, b uint64) uint64 {
	if a < b {
		return a
	}
	return b
}
func maxU(a, b uint64) uint64 {
	if a > b {
		return a
	}
	return b
}

// evalBool: 1 = definitely true, 0 = definitely false, -1 = unknown.
func (e *Explorer) evalBool(t *Term, depth int) int {
	if t.isConst() {
		return int(t.cv)
	}
	if envNoAbs {
		return -1
	}
	if depth <= 0 {
		return -1
	}
	switch t.op {
	case "not":
		r := e.evalBool(t.args[0], depth-1)
		if r < 0 {
			return -1
		}
		return 1 - r
	case "and":
		all := 1
		for _, a := range t.args {
			r := e.evalBool(a, depth-1)
			if r == 0 {
				return 0
			}
			if r < 0 {
				all = -1
			}
		}
		return all
	case "or":
		all := 0
		for _, a := range t.args {
			r := e.evalBool(a, depth-1)
			if r == 1 {
				return 1
			}
			if r < 0 {
				all = -1
			}
		}
		return all
	case "ite":
		if t.sort == SBool {
			c := e.evalBool(t.args[0], depth-1)
			a, b := e.evalBool(t.args[1], depth-1), e.evalBool(t.args[2], depth-1)
			if c == 1 {
				return a
			}
			if c == 0 {
				return b
			}
			if a == b {
				return a
			}
		}
		return -1
	case "var":
		if b, ok := e.bounds[t.name]; ok && b.lo == b.hi {
			return int(b.lo)
		}
		return -1
	case "=":
		if t.args[0].sort <= 0 {
			if t.args[0].sort == SBool {
				a, b := e.evalBool(t.args[0], depth-1), e.evalBool(t.args[1], depth-1)
				if a >= 0 && b >= 0 {
					if a == b {
						return 1
					}
					return 0
				}
			}
			return -1
		}
		a, b := e.evalIv(t.args[0], depth-1), e.evalIv(t.args[1], depth-1)
		if !a.ok || !b.ok {
			return -1
		}
		if a.hi < b.lo || b.hi < a.lo {
			return 0
		}
		if a.lo == a.hi && b.lo == b.hi && a.lo == b.lo {
			return 1
		}
		return -1
	case "bvult", "bvule", "bvugt", "bvuge":
		a, b := e.evalIv(t.args[0], depth-1), e.evalIv(t.args[1], depth-1)
		if !a.ok || !b.ok {
			return -1
		}
		switch t.op {
		case "bvugt":
			a, b = b, a
			fallthrough
		case "bvult":
			if a.hi < b.lo {
				return 1
			}
			if a.lo >= b.hi {
				return 0
			}
		case "bvuge":
			a, b = b, a
			fallthrough
		case "bvule":
			if a.hi <= b.lo {
				return 1
			}
			if a.lo > b.hi {
				return 0
			}
		}
		return -1
	case "bvslt", "bvsle", "bvsgt", "bvsge":
		a, b := e.evalIv(t.args[0], depth-1), e.evalIv(t.args[1], depth-1)
		if !a.ok || !b.ok {
			return -1
		}
		sign := uint64(1) << (uint(t.args[0].sort) - 1)
		if a.hi >= sign || b.hi >= sign {
			return -1 // possibly negative: not handled
		}
		switch t.op {
		case "bvsgt":
			a, b = b, a
			fallthrough
		case "bvslt":
			if a.hi < b.lo {
				return 1
			}
			if a.lo >= b.hi {
				return 0
			}
		case "bvsge":
			a, b = b, a
			fallthrough
		case "bvsle":
			if a.hi <= b.lo {
				return 1
			}
			if a.lo > b.hi {
				return 0
			}
		}
		return -1
	}
	return -1
}

// harvest records variable bounds implied by a constraint that now holds on the path.
func (e *Explorer) harvest(c *Term) {
	if e.bounds == nil {
		e.bounds = boundsMap{}
	}
	e.harvestPol(c, true, 6)
}

func (e *Explorer) harvestPol(c *Term, pos bool, depth int) {
	if depth == 0 || c.isConst() {
		return
	}
	switch c.op {
	case "not":
		e.harvestPol(c.args[0], !pos, depth-1)
	case "and":
		if pos {
			for _, a := range c.args {
				e.harvestPol(a, true, depth-1)
			}
		}
	case "or":
		if !pos {
			for _, a := range c.args {
				e.harvestPol(a, false, depth-1)
			}
		}
	case "var":
		if c.sort == SBool {
			v := uint64(0)
			if pos {
				v = 1
			}
			e.bounds[c.name] = ival{v, v, true}
		}
	case "=":
		if !pos {
			return
		}
		x, k := c.args[0], c.args[1]
		if x.isConst() {
			x, k = k, x
		}
		if x.op == "var" && k.isConst() && x.sort > 0 {
			e.bounds[x.name] = ival{k.cv, k.cv, true}
		}
	case "bvult", "bvule", "bvugt", "bvuge":
		x, k := c.args[0], c.args[1]
		op := c.op
		if !pos {
			op = map[string]string{"bvult": "bvuge", "bvule": "bvugt", "bvugt": "bvule", "bvuge": "bvult"}[op]
		}
		if x.isConst() && k.op == "var" {
			x, k = k, x
			op = map[string]string{"bvult": "bvugt", "bvule": "bvuge", "bvugt": "bvult", "bvuge": "bvule"}[op]
		}
		if x.op != "var" || !k.isConst() || x.sort <= 0 {
			return
		}
		b := e.boundOf(x)
		switch op {
		case "bvult":
			if k.cv == 0 {
				return
			}
			b.hi = minU(b.hi, k.cv-1)
		case "bvule":
			b.hi = minU(b.hi, k.cv)
		case "bvugt":
			if k.cv == mask(x.sort) {
				return
			}
			b.lo = maxU(b.lo, k.cv+1)
		case "bvuge":
			b.lo = maxU(b.lo, k.cv)
		}
		if b.lo <= b.hi {
			e.bounds[x.name] = b
		}
	case "bvslt", "bvsle", "bvsgt", "bvsge":
		// signed bounds against non-negative constants, for variables already known
		// to be non-negative, or establishing non-negativity (x >= 0)
		x, k := c.args[0], c.args[1]
		op := c.op
		if !pos {
			op = map[string]string{"bvslt": "bvsge", "bvsle": "bvsgt", "bvsgt": "bvsle", "bvsge": "bvslt"}[op]
		}
		if x.isConst() && k.op == "var" {
			x, k = k, x
			op = map[string]string{"bvslt": "bvsgt", "bvsle": "bvsge", "bvsgt": "bvslt", "bvsge": "bvsle"}[op]
		}
		if x.op != "var" || !k.isConst() || x.sort <= 0 {
			return
		}
		sign := uint64(1) << (uint(x.sort) - 1)
		if k.cv >= sign {
			return // negative constant
		}
		b := e.boundOf(x)
		switch op {
		case "bvsge":
			// x >= k >= 0  => unsigned lower bound k and below the sign bit
			b.lo = maxU(b.lo, k.cv)
			b.hi = minU(b.hi, sign-1)
		case "bvsgt":
			b.lo = maxU(b.lo, k.cv+1)
			b.hi = minU(b.hi, sign-1)
		case "bvsle":
			if b.hi < sign { // already known non-negative
				b.hi = minU(b.hi, k.cv)
			}
		case "bvslt":
			if b.hi < sign && k.cv > 0 {
				b.hi = minU(b.hi, k.cv-1)
			}
		}
		if b.lo <= b.hi {
			e.bounds[x.name] = b
		}
	}
}

var envNoAbs = os.Getenv("SYMGO_NOABS") != ""
