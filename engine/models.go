package main

// Function models: the harness API (verif*), package-init policy, and leaves of the
// standard library whose real bodies are assembly, unsafe or reflection.

import (
	"fmt"
	"go/types"
	"os"
	"strconv"
	"strings"

	"golang.org/x/tools/go/ssa"
)

type modelFn func(it *Interp, fr *frame, fn *ssa.Function, args []Value) Value

type modelState struct {
	assumptions      map[string]bool
	symbolicMapOrder bool
	manualClock      bool
	preemptive       bool
	fixedSched       bool
	lockOrder        []int // logical goroutine ids in the order they acquired the package's mutexes
	expectPanic      []string
	observe          []string
	observeVals      []obsEntry
	// digest universe
	universe    []universeEntry
	fakeDigests int
	// time
	lastNow *Term
	// misc per-path state that models keep; reset at the start of every path
	perPath map[string]interface{}
}

type obsEntry struct {
	name string
	v    Value
}

var models = map[string]modelFn{}

var memoCache = map[string]string{}

func init() {
	registerAPIModels()
	registerStdModels()
}

var (
	modelKeyCache = map[*ssa.Function]string{}
	fnNameCache   = map[*ssa.Function]string{}
	fnIsRepoCache = map[*ssa.Function]bool{}
)

func modelKey(fn *ssa.Function) string {
	if k, ok := modelKeyCache[fn]; ok {
		return k
	}
	k := ""
	if o := fn.Origin(); o != nil {
		k = o.String()
	} else {
		k = fn.String()
	}
	modelKeyCache[fn] = k
	return k
}

func (it *Interp) callModel(fr *frame, fn *ssa.Function, args []Value) (Value, bool) {
	if fn.Synthetic == "package initializer" {
		it.runPackageInit(fr.caller, fn)
		return nil, true
	}
	name := fn.Name()
	if strings.HasPrefix(name, "verif") && len(name) > 5 && name[5] >= 'A' && name[5] <= 'Z' {
		key := name
		if o := fn.Origin(); o != nil {
			key = o.Name()
		}
		if m, ok := apiModels[key]; ok {
			if key != "verifParam" && key != "verifSymbolic" {
				it.impure("harness API call")
			}
			it.curFrame = fr
			return m(it, fr, fn, args), true
		}
	}
	key := modelKey(fn)
	if m, ok := models[key]; ok {
		it.modelsUsed[key]++
		it.curFrame = fr
		fr.curInstr = nil
		return m(it, fr, fn, args), true
	}
	return nil, false
}

// ---- harness API

var apiModels = map[string]modelFn{}

func argStr(v Value) string {
	s := v.(Str).force()
	if !s.isConcrete() {
		panic("harness API name arguments must be constant strings")
	}
	return s.s
}

// nextVector returns the next item of the concrete vector (vector modes only).
func (it *Interp) nextVector(name string) (replayItem, bool) {
	if it.vector == nil {
		return replayItem{}, false
	}
	if it.vectorPos >= len(it.vector) {
		return replayItem{Name: name}, true
	}
	item := it.vector[it.vectorPos]
	it.vectorPos++
	if item.Name != name {
		panic(unsupported(fmt.Sprintf("vector out of step: want %q got %q", name, item.Name)))
	}
	return item, true
}

// pin constrains a fresh symbolic variable to the vector's value. In "pinned" mode the
// execution stays symbolic (all merging / forking machinery is exercised) but only the
// vector's path is feasible; in concrete mode the constant itself is returned.
func (it *Interp) pin(v *Term, val uint64) *Term {
	var c *Term
	if v.sort == SBool {
		c = mkBool(val != 0)
	} else {
		c = mkBV(int(v.sort), val)
	}
	if !it.pinned {
		return c
	}
	if !it.ex.replaying() {
		it.ex.solver.Assert(mkEq(v, c))
	}
	return v
}

func (it *Interp) newNondet(name, kind string, sort Sort) *Term {
	it.impure("nondet")
	if item, ok := it.nextVector(name); ok {
		v := mkVar(it.ex.freshName(name), sort)
		it.ex.nondets = append(it.ex.nondets, nondetRec{Name: name, Kind: kind, term: v})
		return it.pin(v, uint64(item.Int))
	}
	v := mkVar(it.ex.freshName(name), sort)
	it.ex.nondets = append(it.ex.nondets, nondetRec{Name: name, Kind: kind, term: v})
	return v
}

func registerAPIModels() {
	apiModels["verifBool"] = func(it *Interp, fr *frame, fn *ssa.Function, args []Value) Value {
		return it.newNondet(argStr(args[0]), "bool", SBool)
	}
	apiModels["verifInt64"] = func(it *Interp, fr *frame, fn *ssa.Function, args []Value) Value {
		return it.newNondet(argStr(args[0]), "int64", 64)
	}
	apiModels["verifInt"] = func(it *Interp, fr *frame, fn *ssa.Function, args []Value) Value {
		return it.newNondet(argStr(args[0]), "int", 64)
	}
	apiModels["verifByte"] = func(it *Interp, fr *frame, fn *ssa.Function, args []Value) Value {
		return it.newNondet(argStr(args[0]), "byte", 8)
	}
	// verifChoose(name, n) int : concrete 0..n-1
	apiModels["verifChoose"] = func(it *Interp, fr *frame, fn *ssa.Function, args []Value) Value {
		name := argStr(args[0])
		n := int(it.concreteInt(args[1], "verifChoose n"))
		var j int
		if item, ok := it.nextVector(name); ok {
			j = int(item.Int)
			if j < 0 || j >= n {
				j = 0
			}
		} else if v, ok := it.params["fix."+name]; ok {
			// sharding: this run explores one value of the choice only
			j, _ = strconv.Atoi(v)
			if j < 0 || j >= n {
				panic(pathEnd{"fixed choice out of range"})
			}
		} else {
			j = it.ex.chooseFree("choose:"+name, n)
		}
		it.ex.nondets = append(it.ex.nondets, nondetRec{Name: name, Kind: "choose", conc: int64(j), useConc: true})
		return mkBV(64, uint64(j))
	}
	// verifString(name, maxLen) string : forks over the length, bytes symbolic
	apiModels["verifString"] = func(it *Interp, fr *frame, fn *ssa.Function, args []Value) Value {
		name := argStr(args[0])
		max := int(it.concreteInt(args[1], "verifString maxLen"))
		item, vec := it.nextVector(name)
		var n int
		if vec {
			n = len(item.Bytes)
		} else {
			n = it.ex.chooseFree("len:"+name, max+1)
		}
		bs := make([]*Term, n)
		base := it.ex.freshName(name)
		for i := range bs {
			bs[i] = mkVar(fmt.Sprintf("%s_%d", base, i), 8)
			if vec {
				bs[i] = it.pin(bs[i], uint64(item.Bytes[i]))
			}
		}
		it.ex.nondets = append(it.ex.nondets, nondetRec{Name: name, Kind: "string", terms: bs})
		if n == 0 {
			return Str{}
		}
		return Str{sym: bs}
	}
	// verifStringN(name, n) string : exactly n symbolic bytes
	apiModels["verifStringN"] = func(it *Interp, fr *frame, fn *ssa.Function, args []Value) Value {
		name := argStr(args[0])
		n := int(it.concreteInt(args[1], "verifStringN n"))
		item, vec := it.nextVector(name)
		bs := make([]*Term, n)
		base := it.ex.freshName(name)
		for i := range bs {
			bs[i] = mkVar(fmt.Sprintf("%s_%d", base, i), 8)
			if vec {
				var b uint64
				if i < len(item.Bytes) {
					b = uint64(item.Bytes[i])
				}
				bs[i] = it.pin(bs[i], b)
			}
		}
		it.ex.nondets = append(it.ex.nondets, nondetRec{Name: name, Kind: "string", terms: bs})
		if n == 0 {
			return Str{}
		}
		return Str{sym: bs}
	}
	apiModels["verifBytes"] = func(it *Interp, fr *frame, fn *ssa.Function, args []Value) Value {
		name := argStr(args[0])
		max := int(it.concreteInt(args[1], "verifBytes maxLen"))
		item, vec := it.nextVector(name)
		var n int
		if vec {
			n = len(item.Bytes)
		} else {
			n = it.ex.chooseFree("len:"+name, max+1)
		}
		bs := make([]*Term, n)
		vs := make([]Value, n)
		base := it.ex.freshName(name)
		for i := range bs {
			bs[i] = mkVar(fmt.Sprintf("%s_%d", base, i), 8)
			if vec {
				bs[i] = it.pin(bs[i], uint64(item.Bytes[i]))
			}
			vs[i] = bs[i]
		}
		it.ex.nondets = append(it.ex.nondets, nondetRec{Name: name, Kind: "bytes", terms: bs})
		return Slice{a: vs}
	}
	// verifAtom(name) string : a string known only up to ==, < (order-type abstraction)
	apiModels["verifAtom"] = func(it *Interp, fr *frame, fn *ssa.Function, args []Value) Value {
		name := argStr(args[0])
		if item, ok := it.nextVector(name); ok {
			b := make([]byte, len(item.Bytes))
			for i, x := range item.Bytes {
				b[i] = byte(x)
			}
			it.ex.nondets = append(it.ex.nondets, nondetRec{Name: name, Kind: "string", terms: []*Term{}})
			return mkStr(string(b))
		}
		r := it.newNondet(name, "atom", rankBits)
		return Str{atom: r, aname: name}
	}
	apiModels["verifMaybeNil"] = func(it *Interp, fr *frame, fn *ssa.Function, args []Value) Value {
		name := argStr(args[0])
		b := it.newNondet(name, "bool", SBool)
		t := fn.Signature.Results().At(0).Type()
		return MaybeNil{isNil: b, v: args[1], t: t}
	}
	apiModels["verifAssume"] = func(it *Interp, fr *frame, fn *ssa.Function, args []Value) Value {
		it.ex.assume(args[0].(*Term))
		return nil
	}
	apiModels["verifAssert"] = func(it *Interp, fr *frame, fn *ssa.Function, args []Value) Value {
		it.curFrame = fr.caller
		it.ex.assertHolds(args[0].(*Term), argStr(args[1]))
		return nil
	}
	apiModels["verifCover"] = func(it *Interp, fr *frame, fn *ssa.Function, args []Value) Value {
		it.ex.Covers[argStr(args[0])]++
		return nil
	}
	apiModels["verifObserve"] = func(it *Interp, fr *frame, fn *ssa.Function, args []Value) Value {
		v := args[1]
		if i, ok := v.(Iface); ok {
			v = i.v
		}
		if s, ok := v.(Str); ok {
			v = s.force()
		}
		it.mstate.observe = append(it.mstate.observe, argStr(args[0])+"="+observeString(v))
		it.mstate.observeVals = append(it.mstate.observeVals, obsEntry{argStr(args[0]), v})
		return nil
	}
	apiModels["verifMapOrder"] = func(it *Interp, fr *frame, fn *ssa.Function, args []Value) Value {
		it.mstate.symbolicMapOrder = args[0].(*Term).isTrue()
		return nil
	}
	apiModels["verifExpectPanic"] = func(it *Interp, fr *frame, fn *ssa.Function, args []Value) Value {
		it.mstate.expectPanic = append(it.mstate.expectPanic, argStr(args[0]))
		return nil
	}
	// verifManualClock: time.Now reads a clock that only verifAdvanceClock moves.
	apiModels["verifManualClock"] = func(it *Interp, fr *frame, fn *ssa.Function, args []Value) Value {
		it.mstate.manualClock = true
		return nil
	}
	// verifAdvanceClock(name, max) int64: advance by an arbitrary 0..max whole seconds.
	apiModels["verifAdvanceClock"] = func(it *Interp, fr *frame, fn *ssa.Function, args []Value) Value {
		d := it.newNondet(argStr(args[0]), "int64", 64)
		max := args[1].(*Term)
		it.ex.assume(mkAnd(bvCmp("bvsge", d, mkInt(0)), bvCmp("bvsle", d, max)))
		it.mstate.lastNow = bvBin("bvadd", it.clockTerm(), d)
		return d
	}
	// verifQuiesce() int: let all other goroutines run until none can; returns how many
	// are still alive (blocked).
	apiModels["verifPreemptive"] = func(it *Interp, fr *frame, fn *ssa.Function, args []Value) Value {
		it.mstate.preemptive = args[0].(*Term).isTrue()
		return nil
	}
	// verifRaceDetect(): turn on vector-clock data-race detection for this path.
	apiModels["verifRaceDetect"] = func(it *Interp, fr *frame, fn *ssa.Function, args []Value) Value {
		it.lockLog = newRaceDetector(it)
		return nil
	}
	// verifAssertNoRaces(label): report the races seen so far as a violation.
	apiModels["verifAssertNoRaces"] = func(it *Interp, fr *frame, fn *ssa.Function, args []Value) Value {
		if it.lockLog == nil || it.ex.replaying() {
			return nil
		}
		it.ex.Asserts++
		if len(it.lockLog.races) == 0 {
			it.ex.AssertsHeld++
			return nil
		}
		label := argStr(args[0])
		for _, r := range it.lockLog.races {
			known := ""
			for _, k := range it.ex.known {
				if k.Label == label && k.Where != "" && strings.Contains(r, k.Where) {
					known = k.ID
				}
			}
			if it.ex.solver.Check() != Unsat {
				it.ex.recordViolationKeyed(label, "race", r, known, r)
			}
		}
		it.lockLog.races = nil
		return nil
	}
	// verifMemo(key, f): f is a deterministic, decision-free, self-contained computation
	// with a concrete string result (e.g. a sequential reference execution on a private
	// registry); its result is computed by interpreting f once per worker and reused on
	// later paths. If f makes a solver decision or returns a symbolic string it is not
	// cached.
	apiModels["verifMemo"] = func(it *Interp, fr *frame, fn *ssa.Function, args []Value) Value {
		key := argStr(args[0])
		if v, ok := memoCache[key]; ok {
			return mkStr(v)
		}
		pos := it.ex.pos
		res := it.call(fr, fn.Pos(), args[1], nil)
		if s, ok := res.(Str); ok && it.ex.pos == pos {
			if s = s.force(); s.isConcrete() {
				memoCache[key] = s.s
			}
		}
		return res
	}
	// verifGoID(k): declares the logical id of the calling goroutine (main is 0, others are
	// numbered in creation order); used natively to replay the lock acquisition order.
	apiModels["verifGoID"] = func(it *Interp, fr *frame, fn *ssa.Function, args []Value) Value {
		k := int(args[0].(*Term).sval())
		id := 0
		if fr.g != nil {
			id = fr.g.id
		}
		if k != id {
			panic(unsupported(fmt.Sprintf("verifGoID(%d) called by goroutine %d: ids must follow creation order", k, id)))
		}
		return nil
	}
	// verifNow(): the clock the code under test reads (time.Now under the engine)
	apiModels["verifNow"] = func(it *Interp, fr *frame, fn *ssa.Function, args []Value) Value {
		return models["time.Now"](it, fr, fn, nil)
	}
	apiModels["verifRepeatNative"] = func(it *Interp, fr *frame, fn *ssa.Function, args []Value) Value {
		return mkInt(1)
	}
	// verifFixedSchedule(on): stop exploring scheduler choices (the first runnable
	// goroutine always runs next); for harnesses whose subject is not the interleaving.
	apiModels["verifFixedSchedule"] = func(it *Interp, fr *frame, fn *ssa.Function, args []Value) Value {
		it.mstate.fixedSched = args[0].(*Term).isTrue()
		return nil
	}
	apiModels["verifDebug"] = func(it *Interp, fr *frame, fn *ssa.Function, args []Value) Value {
		if os.Getenv("SYMGO_DEBUG") != "" {
			fmt.Fprintf(os.Stderr, "DEBUG %s = %s\n", argStr(args[0]), observeString(args[1].(Iface).v))
		}
		return nil
	}
	apiModels["verifQuiesce"] = func(it *Interp, fr *frame, fn *ssa.Function, args []Value) Value {
		return mkInt(int64(it.quiesce(fr)))
	}
	apiModels["verifParam"] = func(it *Interp, fr *frame, fn *ssa.Function, args []Value) Value {
		name := argStr(args[0])
		if v, ok := it.params[name]; ok {
			n, err := strconv.Atoi(v)
			if err == nil {
				return mkInt(int64(n))
			}
		}
		return args[1]
	}
	apiModels["verifSymbolic"] = func(it *Interp, fr *frame, fn *ssa.Function, args []Value) Value {
		return tTrue
	}
	// verifIsConcrete / debugging helpers could be added here
}

func observeString(v Value) string {
	if i, ok := v.(Iface); ok {
		v = i.v
	}
	switch v := v.(type) {
	case *Term:
		if v.isConst() {
			if v.sort == SBool {
				return fmt.Sprint(v.cv != 0)
			}
			return fmt.Sprint(v.sval())
		}
		return "?"
	case Str:
		if v.isConcrete() {
			return fmt.Sprintf("%q", v.s)
		}
		return "?"
	}
	return toString(v)
}

func (it *Interp) expectedPanic(p targetPanic) (string, bool) {
	s := toString(p.v)
	for _, e := range it.mstate.expectPanic {
		if strings.Contains(s, e) {
			return e, true
		}
	}
	return "", false
}

// ---- helpers for models

func mkInt(v int64) *Term { return mkBV(64, uint64(v)) }

func (it *Interp) errorString(msg string) Value {
	// errors.New(msg) via the interpreted errors package keeps type identity
	fn := it.prog.ImportedPackage("errors").Func("New")
	return it.callSSA(it.curFrame, 0, fn, []Value{mkStr(msg)}, nil)
}

func typeOfNamed(prog *ssa.Program, pkg, name string) types.Type {
	p := prog.ImportedPackage(pkg)
	if p == nil {
		panic(unsupported("package not in program: " + pkg))
	}
	return p.Type(name).Type()
}

func bytesOfSlice(v Value) []*Term {
	s := v.(Slice)
	out := make([]*Term, len(s.a))
	for i, e := range s.a {
		out[i] = e.(*Term)
	}
	return out
}

func sliceOfBytes(bs []*Term) Slice {
	out := make([]Value, len(bs))
	for i, b := range bs {
		out[i] = b
	}
	return Slice{a: out}
}
