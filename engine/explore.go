package main

// Path exploration by stateless re-execution (DART style). A path is identified by
// its decision trail; the solver's push/pop stack mirrors the trail.

import (
	"encoding/json"
	"fmt"
	"runtime"
	"sort"
	"time"
)

type decision struct {
	n       int
	chosen  int
	kind    string
	payload int64 // concretised value for "value" decisions
}

type nondetRec struct {
	Name    string
	Kind    string // bool, int64, int, byte, bytes, string, choose, atom, maybenil
	term    *Term
	terms   []*Term
	conc    int64 // for choose
	useConc bool
}

type undoEntry struct {
	p   *Value
	old Value
	fn  func()
}

type violation struct {
	Label  string       `json:"label"`
	Kind   string       `json:"kind"` // assert, panic, nontermination, deadlock, leak
	Detail string       `json:"detail"`
	Vector []replayItem `json:"vector"`
	Trail  []int        `json:"trail"`
	Known  string       `json:"known,omitempty"`
	Alt    int          `json:"alt,omitempty"` // k-th alternative counterexample of this label
	Stack  []string     `json:"stack,omitempty"`
	extras map[string]uint64
}

type replayItem struct {
	Name  string `json:"name"`
	Kind  string `json:"kind"`
	Int   int64  `json:"int,omitempty"`
	Bytes []int  `json:"bytes,omitempty"`
}

type Explorer struct {
	solver    *Solver
	trail     []decision
	pos       int
	replayLen int
	base      int

	nondets    []nondetRec
	nameCount  map[string]int
	journal    []undoEntry
	bounds     boundsMap
	AbsDecided int64
	completed  int
	nextSample int

	// budgets
	maxPaths      int
	deadline      time.Time
	maxSteps      int
	steps         int
	maxConcretize int

	// results
	Paths        int
	PathsEnded   map[string]int // reason -> count
	Asserts      int            // assertion queries discharged
	AssertsHeld  int
	AssertLabels map[string]int
	Covers       map[string]int
	Violations   []violation
	violSeen     map[string]int
	reassert     bool // the solver was restarted: replayed decisions must be pushed again
	Refreshes    int
	violVecs     map[string]bool
	Inconclusive []string
	Incomplete   string
	StepsTotal   int64
	Decisions    int64
	Samples      []sampleRec
	Observed     []string

	known []knownFinding // for this harness

	// atoms
	atomConsts []atomConst

	it *Interp
}

type atomConst struct {
	s     string
	rank  *Term
	level int
	gen   int
}

func (e *Explorer) replaying() bool { return e.pos < e.replayLen }

func (e *Explorer) inconclusive(msg string) {
	for _, m := range e.Inconclusive {
		if m == msg {
			return
		}
	}
	if len(e.Inconclusive) < 50 {
		e.Inconclusive = append(e.Inconclusive, msg)
	}
}

// choose selects one of the alternatives whose guard is satisfiable together with the
// path condition. The guards must be mutually exclusive; if exhaustive is set they
// are also assumed to cover all cases (so the last remaining one needs no check).
func (e *Explorer) choose(kind string, conds []*Term, exhaustive bool) int {
	n := len(conds)
	// interval pre-check (sound): replace decided guards by constants
	pre := make([]*Term, n)
	changed := false
	for j, c := range conds {
		pre[j] = c
		if !c.isConst() {
			switch e.evalBool(c, 8) {
			case 1:
				pre[j] = tTrue
				changed = true
			case 0:
				pre[j] = tFalse
				changed = true
			}
		}
	}
	if changed {
		e.AbsDecided++
		conds = pre
	}
	// trivial cases: no decision needed
	nonFalse := -1
	cnt := 0
	for j, c := range conds {
		if c.isTrue() && n > 1 {
			// a literally true guard: exclusive alternatives => the others are false
			allOtherFalse := true
			for k, o := range conds {
				if k != j && !o.isFalse() {
					allOtherFalse = false
				}
			}
			if allOtherFalse {
				return j
			}
		}
		if !c.isFalse() {
			nonFalse = j
			cnt++
		}
	}
	if cnt == 0 {
		panic(pathEnd{"infeasible"})
	}
	if cnt == 1 && (exhaustive || conds[nonFalse].isTrue()) {
		return nonFalse
	}
	return e.decide(kind, n, func(j int) *Term { return conds[j] }, exhaustive, 0, false)
}

// chooseFree is an n-way unconditional choice (shapes, menus, schedules).
func (e *Explorer) chooseFree(kind string, n int) int {
	if n <= 0 {
		panic(pathEnd{"empty choice"})
	}
	if n == 1 {
		return 0
	}
	return e.decide(kind, n, func(j int) *Term { return tTrue }, true, 0, false)
}

func (e *Explorer) decide(kind string, n int, cond func(int) *Term, exhaustive bool, payload int64, hasPayload bool) int {
	if e.it != nil && e.it.specDepth > 0 {
		panic(specAbort{"decision inside a speculative region", false})
	}
	e.Decisions++
	if e.pos < e.replayLen-1 {
		d := e.trail[e.pos]
		if d.n != n || d.kind != kind {
			panic(unsupported(fmt.Sprintf("non-deterministic re-execution: decision %d was %s/%d now %s/%d", e.pos, d.kind, d.n, kind, n)))
		}
		e.pos++
		c := cond(d.chosen)
		if e.reassert {
			// the solver was restarted: rebuild its stack for the replayed prefix
			e.solver.Push()
			e.solver.Assert(c)
		}
		e.harvest(c)
		return d.chosen
	}
	start := 0
	flip := false
	if e.pos == e.replayLen-1 {
		d := e.trail[e.pos]
		if d.n != n || d.kind != kind {
			panic(unsupported(fmt.Sprintf("non-deterministic re-execution at flip: decision %d was %s/%d now %s/%d", e.pos, d.kind, d.n, kind, n)))
		}
		start = d.chosen
		flip = true
		e.replayLen = -1 // from here on we are in new territory
		e.reassert = false
	} else {
		e.trail = append(e.trail, decision{n: n, chosen: 0, kind: kind, payload: payload})
	}
	idx := e.pos
	anyEarlierFeasible := flip // on a flip some earlier alternative was feasible
	for j := start; j < n; j++ {
		c := cond(j)
		if c.isFalse() {
			continue
		}
		e.solver.Push()
		e.solver.Assert(c)
		needCheck := !c.isTrue()
		if needCheck && exhaustive && !anyEarlierFeasible {
			// is any later alternative possibly feasible?
			later := false
			for k := j + 1; k < n; k++ {
				if !cond(k).isFalse() {
					later = true
					break
				}
			}
			if !later {
				needCheck = false
			}
		}
		if needCheck {
			switch e.solver.Check() {
			case Unsat:
				e.solver.Pop()
				continue
			case Unknown:
				e.inconclusive("solver answered unknown on a feasibility query (" + kind + ")")
			}
		}
		e.trail[idx].chosen = j
		e.pos = idx + 1
		e.harvest(c)
		return j
	}
	e.trail[idx].chosen = n - 1
	e.pos = idx + 1
	// mark: nothing feasible; the frame for this decision was popped, so push a dummy
	// frame to keep level == decisions invariant for the backtracking code.
	e.solver.Push()
	panic(pathEnd{"infeasible"})
}

// branch decides a symbolic condition.
func (e *Explorer) branch(c *Term) bool {
	if c.isConst() {
		return c.cv != 0
	}
	return e.choose("if", []*Term{c, mkNot(c)}, true) == 0
}

// concretizeRange enumerates the feasible values of t, known to lie in [lo, hi]
// (signed). Small ranges are decided by one n-way choice without asking the solver for
// models.
func (e *Explorer) concretizeRange(t *Term, lo, hi int64, what string) int64 {
	if t.isConst() {
		return t.sval()
	}
	if iv := e.evalIv(t, 8); iv.ok && int64(iv.lo) >= lo && int64(iv.hi) <= hi && int64(iv.hi) >= 0 {
		lo, hi = int64(iv.lo), int64(iv.hi)
	}
	if hi-lo < 0 || hi-lo > 96 {
		return e.concretizeByModel(t, what)
	}
	conds := make([]*Term, hi-lo+1)
	for v := lo; v <= hi; v++ {
		conds[v-lo] = mkEq(t, mkBV(int(t.sort), uint64(v)))
	}
	return lo + int64(e.choose("value:"+what, conds, true))
}

// concretize enumerates the feasible values of t (bounded).
func (e *Explorer) concretize(t *Term, what string) int64 {
	if t.isConst() {
		return t.sval()
	}
	if iv := e.evalIv(t, 10); iv.ok && iv.hi < 1<<62 && iv.hi-iv.lo <= 96 {
		return e.concretizeRange(t, int64(iv.lo), int64(iv.hi), what)
	}
	return e.concretizeByModel(t, what)
}

func (e *Explorer) concretizeByModel(t *Term, what string) int64 {
	if t.isConst() {
		return t.sval()
	}
	for count := 0; ; count++ {
		if count > e.maxConcretize {
			panic(unsupported("more than " + fmt.Sprint(e.maxConcretize) + " feasible values for a symbolic " + what))
		}
		var v int64
		if e.pos < e.replayLen {
			v = e.trail[e.pos].payload
		} else {
			if e.solver.Check() != Sat {
				e.inconclusive("solver could not produce a model while concretising " + what)
				panic(pathEnd{"no model"})
			}
			m := e.solver.Values([]*Term{t})
			var raw uint64
			for _, x := range m {
				raw = x
			}
			c := &Term{op: "const", sort: t.sort, cv: raw & mask(t.sort)}
			if t.sort == SInt {
				c.cv = raw
			}
			v = c.sval()
		}
		var cv *Term
		if t.sort == SInt {
			cv = mkIntConst(v)
		} else {
			cv = mkBV(int(t.sort), uint64(v))
		}
		eq := mkEq(t, cv)
		j := e.decide("value:"+what, 2, func(j int) *Term {
			if j == 0 {
				return eq
			}
			return mkNot(eq)
		}, false, v, true)
		if j == 0 {
			return v
		}
	}
}

// assume adds a constraint to the path; ends the path if it becomes infeasible.
func (e *Explorer) assume(c *Term) {
	if c.isTrue() {
		return
	}
	if e.it != nil && e.it.specDepth > 0 {
		panic(specAbort{"assume inside a speculative region", true})
	}
	if c.isFalse() {
		panic(pathEnd{"assumption false"})
	}
	e.harvest(c)
	if e.replaying() {
		if e.reassert {
			e.solver.Assert(c)
		}
		return
	}
	e.solver.Assert(c)
	switch e.solver.Check() {
	case Unsat:
		panic(pathEnd{"assumption infeasible"})
	case Unknown:
		e.inconclusive("solver answered unknown on an assumption")
	}
}

// assertHolds discharges pc ∧ ¬c.
func (e *Explorer) assertHolds(c *Term, label string) {
	if e.it != nil && e.it.specDepth > 0 {
		panic(specAbort{"assert inside a speculative region", true})
	}
	if e.AssertLabels == nil {
		e.AssertLabels = map[string]int{}
	}
	if e.replaying() {
		if c.isFalse() {
			panic(pathEnd{"assertion failed (already reported)"})
		}
		e.harvest(c)
		return
	}
	e.AssertLabels[label]++
	if c.isTrue() {
		e.Asserts++
		e.AssertsHeld++
		return
	}
	e.Asserts++
	neg := mkNot(c)
	// known-finding exclusions for this label
	var excl []*Term
	var exclK []knownFinding
	for _, k := range e.known {
		if k.Label == label {
			if t := e.it.knownExclusion(k); t != nil {
				excl = append(excl, t)
				exclK = append(exclK, k)
			}
		}
	}
	if len(excl) > 0 {
		// first: a violation outside every listed finding
		outside := []*Term{neg}
		for _, x := range excl {
			outside = append(outside, mkNot(x))
		}
		e.solver.Push()
		e.solver.Assert(mkAnd(outside...))
		r := e.solver.Check()
		if r == Sat {
			e.recordViolation(label, "assert", "assertion "+label+" can fail", "")
		} else if r == Unknown {
			e.inconclusive("solver answered unknown on assertion " + label)
		}
		e.solver.Pop()
		for i, x := range excl {
			e.solver.Push()
			e.solver.Assert(mkAnd(neg, x))
			r := e.solver.Check()
			if r == Sat {
				e.recordViolation(label, "assert", "assertion "+label+" can fail", exclK[i].ID)
			}
			e.solver.Pop()
		}
	} else {
		e.solver.Push()
		e.solver.Assert(neg)
		r := e.solver.Check()
		switch r {
		case Sat:
			e.recordViolation(label, "assert", "assertion "+label+" can fail", "")
		case Unknown:
			e.inconclusive("solver answered unknown on assertion " + label)
		case Unsat:
			e.AssertsHeld++
		}
		e.solver.Pop()
	}
	if c.isFalse() {
		panic(pathEnd{"assertion failed"})
	}
	// continue under the assumption that it held
	e.harvest(c)
	e.solver.Assert(c)
	if e.solver.Check() == Unsat {
		panic(pathEnd{"assertion always fails here"})
	}
}

// recordViolation must be called right after a Sat answer (model available).
func (e *Explorer) recordViolation(label, kind, detail, known string) {
	e.recordViolationKeyed(label, kind, detail, known, "")
}

// recordViolationKeyed distinguishes violations with the same label by an extra key
// (e.g. the two program locations of a data race).
func (e *Explorer) recordViolationKeyed(label, kind, detail, known, extra string) {
	key := kind + "/" + label + "/" + known + "/" + extra
	if e.violSeen == nil {
		e.violSeen = map[string]int{}
		e.violVecs = map[string]bool{}
	}
	// Up to maxAlternatives counterexamples with different inputs are kept per label: a
	// counterexample that depends on a goroutine schedule the native run does not follow
	// may fail to replay while another one (for other inputs) does.
	const maxAlternatives = 4
	if e.violSeen[key] >= maxAlternatives {
		return
	}
	v := violation{Label: label, Kind: kind, Detail: detail, Known: known}
	v.Vector = e.modelVector()
	sig, _ := json.Marshal(v.Vector)
	if e.violVecs[key+"#"+string(sig)] {
		return
	}
	e.violVecs[key+"#"+string(sig)] = true
	for _, d := range e.trail[:e.pos] {
		v.Trail = append(v.Trail, d.chosen)
	}
	if e.it != nil {
		v.Stack = e.it.stackTrace()
	}
	v.Alt = e.violSeen[key]
	e.violSeen[key]++
	e.Violations = append(e.Violations, v)
}

// modelVector extracts the values of all nondet inputs of the current path from the
// solver's current model.
func (e *Explorer) modelVector() []replayItem {
	var vars []*Term
	for _, nd := range e.nondets {
		if nd.term != nil && !nd.term.isConst() {
			vars = append(vars, nd.term)
		}
		for _, t := range nd.terms {
			if !t.isConst() {
				vars = append(vars, t)
			}
		}
	}
	for _, c := range e.atomConsts {
		vars = append(vars, c.rank)
	}
	m := e.solver.Values(vars)
	// atoms: derive concrete strings that respect the model's rank order
	type rankedConst struct {
		rank int64
		s    string
	}
	consts := []rankedConst{{0, ""}}
	for _, c := range e.atomConsts {
		consts = append(consts, rankedConst{int64(m[c.rank.name]), c.s})
	}
	sort.Slice(consts, func(i, j int) bool { return consts[i].rank < consts[j].rank })
	var atomRanks []int64
	for _, nd := range e.nondets {
		if nd.Kind == "atom" {
			atomRanks = append(atomRanks, int64(m[nd.term.name]))
		}
	}
	sort.Slice(atomRanks, func(i, j int) bool { return atomRanks[i] < atomRanks[j] })
	atomString := func(r int64) string {
		base := ""
		for _, c := range consts {
			if c.rank == r {
				return c.s
			}
			if c.rank < r {
				base = c.s
			}
		}
		idx := 0
		for i, x := range atomRanks {
			if x == r {
				idx = i
				break
			}
		}
		return fmt.Sprintf("%s\x01%04d", base, idx)
	}
	val := func(t *Term) int64 {
		if t.isConst() {
			return t.sval()
		}
		raw := m[t.name]
		c := &Term{op: "const", sort: t.sort, cv: raw & mask(t.sort)}
		if t.sort == SInt || t.sort == SBool {
			c.cv = raw
		}
		if t.sort == SBool {
			return int64(raw)
		}
		return c.sval()
	}
	var out []replayItem
	for _, nd := range e.nondets {
		it := replayItem{Name: nd.Name, Kind: nd.Kind}
		switch {
		case nd.Kind == "atom":
			it.Bytes = []int{}
			for _, b := range []byte(atomString(int64(m[nd.term.name]))) {
				it.Bytes = append(it.Bytes, int(b))
			}
		case nd.useConc:
			it.Int = nd.conc
		case nd.terms != nil || nd.Kind == "string" || nd.Kind == "bytes":
			it.Bytes = []int{}
			for _, t := range nd.terms {
				it.Bytes = append(it.Bytes, int(uint8(val(t))))
			}
		case nd.term != nil:
			it.Int = val(nd.term)
		}
		out = append(out, it)
	}
	if e.it != nil && len(e.it.mstate.lockOrder) > 0 {
		out = append(out, replayItem{Name: "#lockorder", Kind: "lockorder", Bytes: append([]int{}, e.it.mstate.lockOrder...)})
	}
	return out
}

func (e *Explorer) freshName(name string) string {
	if e.nameCount == nil {
		e.nameCount = map[string]int{}
	}
	k := e.nameCount[name]
	e.nameCount[name] = k + 1
	return fmt.Sprintf("%s!%d", sanitize(name), k)
}

func sanitize(s string) string {
	b := []byte(s)
	for i, c := range b {
		if !(c >= 'a' && c <= 'z' || c >= 'A' && c <= 'Z' || c >= '0' && c <= '9' || c == '_' || c == '.') {
			b[i] = '_'
		}
	}
	return string(b)
}

func (e *Explorer) undoAll() {
	for i := len(e.journal) - 1; i >= 0; i-- {
		u := e.journal[i]
		if u.fn != nil {
			u.fn()
		} else {
			*u.p = u.old
		}
	}
	e.journal = e.journal[:0]
}

// Run explores all paths of entry.
func (e *Explorer) Run(entry func()) {
	e.PathsEnded = map[string]int{}
	e.Covers = map[string]int{}
	e.base = e.solver.level
	for {
		e.pos = 0
		e.replayLen = len(e.trail)
		e.nondets = e.nondets[:0]
		e.nameCount = map[string]int{}
		e.bounds = boundsMap{}
		e.steps = 0
		reason := e.runOnce(entry)
		e.Paths++
		e.PathsEnded[reason]++
		e.StepsTotal += int64(e.steps)
		e.undoAll()
		if len(e.Inconclusive) > 0 && e.it != nil && e.it.stopOnInconclusive {
			return
		}
		// backtrack
		for len(e.trail) > 0 {
			d := &e.trail[len(e.trail)-1]
			if d.chosen+1 < d.n {
				d.chosen++
				break
			}
			e.trail = e.trail[:len(e.trail)-1]
		}
		if len(e.trail) == 0 {
			e.solver.PopTo(e.base)
			return
		}
		e.solver.PopTo(e.base + len(e.trail) - 1)
		if e.maxPaths > 0 && e.Paths >= e.maxPaths {
			e.Incomplete = fmt.Sprintf("path budget %d exhausted", e.maxPaths)
			e.solver.PopTo(e.base)
			return
		}
		if !e.deadline.IsZero() && time.Now().After(e.deadline) {
			e.Incomplete = "time budget exhausted"
			e.solver.PopTo(e.base)
			return
		}
		e.maybeRefresh()
	}
}

// maybeRefresh bounds the memory of very long runs: hash-consed terms (and their
// definitions inside the solver) accumulate over the paths of a run. When the heap
// passes the limit the intern tables are dropped and the solver process is replaced;
// the next path re-asserts its decision prefix (reassert) instead of relying on the
// retained assertion stack.
func (e *Explorer) maybeRefresh() {
	if e.Paths%512 != 0 || e.base != 0 {
		return
	}
	if e.solver.Defs < defsRefreshLimit {
		var ms runtime.MemStats
		runtime.ReadMemStats(&ms)
		if ms.HeapAlloc < heapRefreshLimit {
			return
		}
		// is it live data or garbage?
		runtime.GC()
		runtime.ReadMemStats(&ms)
		if ms.HeapAlloc < heapRefreshLimit/2 {
			return
		}
	}
	internSmall = map[termKey]*Term{}
	internBig = map[string]*Term{}
	e.atomConsts = nil
	if err := e.solver.Restart(); err != nil {
		e.inconclusive("solver restart failed: " + err.Error())
		return
	}
	e.reassert = true
	e.Refreshes++
	runtime.GC()
}

var (
	heapRefreshLimit uint64 = 1500 << 20
	defsRefreshLimit        = 3000000 // definitions held by one solver process
)

func (e *Explorer) runOnce(entry func()) (reason string) {
	defer func() {
		r := recover()
		if r == nil {
			return
		}
		switch r := r.(type) {
		case pathEnd:
			reason = "pruned: " + r.reason
		case targetPanic:
			reason = "panic"
			if r.implicit == "" {
				if s, ok := e.it.expectedPanic(r); ok {
					reason = "expected panic: " + s
					return
				}
			}
			if !e.replaying() {
				// a model of the current path condition is the counterexample
				if e.solver.Check() != Unsat {
					lbl := "no-panic"
					e.recordViolation(lbl, "panic", r.String()+e.it.panicWhere(), e.it.knownPanic(r))
				}
			}
		case unsupportedErr:
			reason = "unsupported"
			e.inconclusive(r.Error() + e.it.panicWhere())
		case stepLimit:
			reason = "step limit"
			if e.it.nonterminationIsViolation {
				if !e.replaying() && e.solver.Check() != Unsat {
					e.recordViolation("terminates", "nontermination", fmt.Sprintf("no termination within %d steps", e.maxSteps)+e.it.panicWhere(), "")
				}
			} else {
				e.inconclusive(fmt.Sprintf("path exceeded %d interpreter steps", e.maxSteps) + e.it.panicWhere())
			}
		default:
			panic(r)
		}
	}()
	entry()
	return "completed"
}

type stepLimit struct{}

func sortedKeys(m map[string]int) []string {
	var ks []string
	for k := range m {
		ks = append(ks, k)
	}
	sort.Strings(ks)
	return ks
}
