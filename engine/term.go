package main

// SMT terms with constant folding. Sorts: Bool, BitVec(n) for 1<=n<=64, Int (mathematical,
// used only for atom ranks and choice variables).

import (
	"fmt"
	"math/bits"
	"strconv"
	"strings"
)

type Sort int

const (
	SBool Sort = 0
	SInt  Sort = -1
	// BitVec(n) is Sort(n), n >= 1
)

func (s Sort) String() string {
	switch {
	case s == SBool:
		return "Bool"
	case s == SInt:
		return "Int"
	}
	return "(_ BitVec " + strconv.Itoa(int(s)) + ")"
}

type Term struct {
	op   string // "const", "var", or an SMT-LIB operator
	sort Sort
	cv   uint64 // constant value (masked to width; Bool: 0/1; Int: int64 bits)
	name string // var name; for "extract"/"zero_extend"/"sign_extend" the printed head
	args []*Term
	id   int
	// solver bookkeeping
	emitEpoch int // solver epoch in which the term was defined (0 = never); see Solver.epoch
	emitGen   int
	defn      *varDefn // for "var": defining constraint asserted when first referenced
	// defs: defining constraints (see varDefn) of auxiliary variables this term mentions,
	// transitively; they must be asserted in any query that mentions the term.
	defs []*Term
}

// varDefn is a constraint that defines a group of auxiliary variables as a total
// function of other terms (e.g. decimal digits of a value). It is satisfiable for every
// value of those terms, so it only needs to be asserted in queries that mention one of
// the variables.
type varDefn struct {
	cons *Term
}

var termCounter int

// Terms are hash-consed: structurally equal terms are the same object (and keep their
// solver-side definition across paths, since declarations are global in the solver).
type termKey struct {
	op         string
	sort       Sort
	a0, a1, a2 int
	name       string
}

var (
	internSmall = map[termKey]*Term{}
	internBig   = map[string]*Term{}
)

func argID(t *Term) int {
	if t.id == 0 {
		// constants are not interned: derive a stable negative key from sort and value
		return -int(uint32(t.cv*2654435761)^uint32(t.cv>>32)^uint32(t.sort)<<24) - 1
	}
	return t.id
}

func sameArgs(a, b []*Term) bool {
	if len(a) != len(b) {
		return false
	}
	for i := range a {
		if a[i] != b[i] && !(a[i].isConst() && b[i].isConst() && a[i].sort == b[i].sort && a[i].cv == b[i].cv) {
			return false
		}
	}
	return true
}

func newTerm(op string, sort Sort, args ...*Term) *Term {
	return newTermNamed(op, sort, "", args...)
}

func newTermNamed(op string, sort Sort, name string, args ...*Term) *Term {
	var t *Term
	if len(args) <= 3 {
		k := termKey{op: op, sort: sort, name: name}
		if len(args) > 0 {
			k.a0 = argID(args[0])
		}
		if len(args) > 1 {
			k.a1 = argID(args[1])
		}
		if len(args) > 2 {
			k.a2 = argID(args[2])
		}
		if t = internSmall[k]; t != nil && sameArgs(t.args, args) {
			return t
		}
		termCounter++
		t = &Term{op: op, sort: sort, name: name, args: args, id: termCounter, emitEpoch: 0}
		internSmall[k] = t
	} else {
		var sb strings.Builder
		sb.WriteString(op)
		sb.WriteByte('|')
		sb.WriteString(strconv.Itoa(int(sort)))
		for _, a := range args {
			sb.WriteByte('|')
			sb.WriteString(strconv.Itoa(argID(a)))
		}
		k := sb.String()
		if t = internBig[k]; t != nil && sameArgs(t.args, args) {
			return t
		}
		termCounter++
		t = &Term{op: op, sort: sort, name: name, args: args, id: termCounter, emitEpoch: 0}
		internBig[k] = t
	}
	for _, a := range args {
		for _, d := range a.defs {
			dup := false
			for _, x := range t.defs {
				if x == d {
					dup = true
					break
				}
			}
			if !dup {
				t.defs = append(t.defs, d)
			}
		}
	}
	return t
}

func mask(w Sort) uint64 {
	if w >= 64 {
		return ^uint64(0)
	}
	return (uint64(1) << uint(w)) - 1
}

var (
	tTrue  = &Term{op: "const", sort: SBool, cv: 1, emitEpoch: 0}
	tFalse = &Term{op: "const", sort: SBool, cv: 0, emitEpoch: 0}
)

func mkBool(b bool) *Term {
	if b {
		return tTrue
	}
	return tFalse
}

func mkBV(w int, v uint64) *Term {
	return &Term{op: "const", sort: Sort(w), cv: v & mask(Sort(w)), emitEpoch: 0}
}

func mkIntConst(v int64) *Term {
	return &Term{op: "const", sort: SInt, cv: uint64(v), emitEpoch: 0}
}

func mkVar(name string, sort Sort) *Term {
	t := newTermNamed("var", sort, name)
	t.defs = nil // a fresh use of the name; a defining constraint is attached by the creator if any
	t.defn = nil
	return t
}

func (t *Term) isConst() bool { return t.op == "const" }
func (t *Term) isTrue() bool  { return t.op == "const" && t.sort == SBool && t.cv == 1 }
func (t *Term) isFalse() bool { return t.op == "const" && t.sort == SBool && t.cv == 0 }

// signed value of a constant
func (t *Term) sval() int64 {
	if t.sort == SInt {
		return int64(t.cv)
	}
	w := uint(t.sort)
	if w >= 64 {
		return int64(t.cv)
	}
	if t.cv&(1<<(w-1)) != 0 {
		return int64(t.cv | ^mask(t.sort))
	}
	return int64(t.cv)
}

func sameTerm(a, b *Term) bool {
	if a == b {
		return true
	}
	if a.isConst() && b.isConst() {
		return a.sort == b.sort && a.cv == b.cv
	}
	if a.op == "var" && b.op == "var" {
		return a.name == b.name && a.sort == b.sort
	}
	return false
}

// ---- Boolean connectives

func mkNot(a *Term) *Term {
	if a.isConst() {
		return mkBool(a.cv == 0)
	}
	if a.op == "not" {
		return a.args[0]
	}
	return newTerm("not", SBool, a)
}

func mkAnd(xs ...*Term) *Term {
	var out []*Term
	for _, x := range xs {
		if x.isFalse() {
			return tFalse
		}
		if x.isTrue() {
			continue
		}
		dup := false
		for _, o := range out {
			if o == x {
				dup = true
			}
		}
		if !dup {
			out = append(out, x)
		}
	}
	switch len(out) {
	case 0:
		return tTrue
	case 1:
		return out[0]
	}
	return newTerm("and", SBool, out...)
}

func mkOr(xs ...*Term) *Term {
	var out []*Term
	for _, x := range xs {
		if x.isTrue() {
			return tTrue
		}
		if x.isFalse() {
			continue
		}
		dup := false
		for _, o := range out {
			if o == x {
				dup = true
			}
		}
		if !dup {
			out = append(out, x)
		}
	}
	switch len(out) {
	case 0:
		return tFalse
	case 1:
		return out[0]
	}
	return newTerm("or", SBool, out...)
}

func mkImplies(a, b *Term) *Term { return mkOr(mkNot(a), b) }

func mkIte(c, a, b *Term) *Term {
	if c.isTrue() {
		return a
	}
	if c.isFalse() {
		return b
	}
	if sameTerm(a, b) {
		return a
	}
	if a.sort != b.sort {
		panic(fmt.Sprintf("mkIte: sort mismatch %v %v", a.sort, b.sort))
	}
	if a.sort == SBool {
		if a.isTrue() && b.isFalse() {
			return c
		}
		if a.isFalse() && b.isTrue() {
			return mkNot(c)
		}
		if a.isTrue() {
			return mkOr(c, b)
		}
		if a.isFalse() {
			return mkAnd(mkNot(c), b)
		}
		if b.isTrue() {
			return mkOr(mkNot(c), a)
		}
		if b.isFalse() {
			return mkAnd(c, a)
		}
	}
	return newTerm("ite", a.sort, c, a, b)
}

func mkEq(a, b *Term) *Term {
	if a.sort != b.sort {
		panic(fmt.Sprintf("mkEq: sort mismatch %v %v (%s / %s)", a.sort, b.sort, a.String(), b.String()))
	}
	if sameTerm(a, b) {
		return tTrue
	}
	if a.isConst() && b.isConst() {
		return mkBool(a.cv == b.cv)
	}
	if a.sort == SBool {
		if a.isConst() {
			a, b = b, a
		}
		if b.isTrue() {
			return a
		}
		if b.isFalse() {
			return mkNot(a)
		}
	}
	// ite(c, k1, k2) == k  simplification (common for bool->int conversions and tables)
	if b.isConst() && a.op == "ite" && a.args[1].isConst() && a.args[2].isConst() {
		return mkIte(a.args[0], mkBool(a.args[1].cv == b.cv), mkBool(a.args[2].cv == b.cv))
	}
	if a.isConst() && b.op == "ite" && b.args[1].isConst() && b.args[2].isConst() {
		return mkIte(b.args[0], mkBool(b.args[1].cv == a.cv), mkBool(b.args[2].cv == a.cv))
	}
	return newTerm("=", SBool, a, b)
}

// ---- Bit-vector operations

func bvBin(op string, a, b *Term) *Term {
	if a.sort != b.sort {
		panic(fmt.Sprintf("bvBin %s: sort mismatch %v %v", op, a.sort, b.sort))
	}
	w := a.sort
	if a.isConst() && b.isConst() {
		x, y := a.cv, b.cv
		var r uint64
		switch op {
		case "bvadd":
			r = x + y
		case "bvsub":
			r = x - y
		case "bvmul":
			r = x * y
		case "bvand":
			r = x & y
		case "bvor":
			r = x | y
		case "bvxor":
			r = x ^ y
		case "bvshl":
			if y >= uint64(w) {
				r = 0
			} else {
				r = x << y
			}
		case "bvlshr":
			if y >= uint64(w) {
				r = 0
			} else {
				r = x >> y
			}
		case "bvashr":
			sx := a.sval()
			if y >= uint64(w) {
				if sx < 0 {
					r = ^uint64(0)
				} else {
					r = 0
				}
			} else {
				r = uint64(sx >> y)
			}
		case "bvudiv":
			if y == 0 {
				r = mask(w)
			} else {
				r = x / y
			}
		case "bvurem":
			if y == 0 {
				r = x
			} else {
				r = x % y
			}
		case "bvsdiv":
			sx, sy := a.sval(), b.sval()
			if sy == 0 {
				if sx < 0 {
					r = 1
				} else {
					r = mask(w)
				}
			} else if sy == -1 {
				r = uint64(-sx)
			} else {
				r = uint64(sx / sy)
			}
		case "bvsrem":
			sx, sy := a.sval(), b.sval()
			if sy == 0 {
				r = x
			} else if sy == -1 {
				r = 0
			} else {
				r = uint64(sx % sy)
			}
		default:
			panic("bvBin: " + op)
		}
		return mkBV(int(w), r)
	}
	// identities
	switch op {
	case "bvadd":
		if a.isConst() && a.cv == 0 {
			return b
		}
		if b.isConst() && b.cv == 0 {
			return a
		}
	case "bvsub":
		if b.isConst() && b.cv == 0 {
			return a
		}
		if a == b {
			return mkBV(int(w), 0)
		}
		// (x + c1) - c2  =>  x + (c1 - c2)
		if b.isConst() && a.op == "bvadd" && a.args[1].isConst() {
			return bvBin("bvadd", a.args[0], mkBV(int(w), a.args[1].cv-b.cv))
		}
		if b.isConst() && a.op == "bvadd" && a.args[0].isConst() {
			return bvBin("bvadd", a.args[1], mkBV(int(w), a.args[0].cv-b.cv))
		}
	case "bvmul":
		if a.isConst() && a.cv == 1 {
			return b
		}
		if b.isConst() && b.cv == 1 {
			return a
		}
		if (a.isConst() && a.cv == 0) || (b.isConst() && b.cv == 0) {
			return mkBV(int(w), 0)
		}
	case "bvand":
		if (a.isConst() && a.cv == 0) || (b.isConst() && b.cv == 0) {
			return mkBV(int(w), 0)
		}
		if a.isConst() && a.cv == mask(w) {
			return b
		}
		if b.isConst() && b.cv == mask(w) {
			return a
		}
	case "bvor", "bvxor":
		if a.isConst() && a.cv == 0 {
			return b
		}
		if b.isConst() && b.cv == 0 {
			return a
		}
	case "bvshl", "bvlshr", "bvashr":
		if b.isConst() && b.cv == 0 {
			return a
		}
	}
	return newTerm(op, w, a, b)
}

func bvCmp(op string, a, b *Term) *Term {
	if a.sort != b.sort {
		panic(fmt.Sprintf("bvCmp %s: sort mismatch %v %v", op, a.sort, b.sort))
	}
	if a.isConst() && b.isConst() {
		switch op {
		case "bvult":
			return mkBool(a.cv < b.cv)
		case "bvule":
			return mkBool(a.cv <= b.cv)
		case "bvugt":
			return mkBool(a.cv > b.cv)
		case "bvuge":
			return mkBool(a.cv >= b.cv)
		case "bvslt":
			return mkBool(a.sval() < b.sval())
		case "bvsle":
			return mkBool(a.sval() <= b.sval())
		case "bvsgt":
			return mkBool(a.sval() > b.sval())
		case "bvsge":
			return mkBool(a.sval() >= b.sval())
		}
	}
	if a == b {
		switch op {
		case "bvult", "bvugt", "bvslt", "bvsgt":
			return tFalse
		default:
			return tTrue
		}
	}
	return newTerm(op, SBool, a, b)
}

func bvNot(a *Term) *Term {
	if a.isConst() {
		return mkBV(int(a.sort), ^a.cv)
	}
	return newTerm("bvnot", a.sort, a)
}

func bvNeg(a *Term) *Term {
	if a.isConst() {
		return mkBV(int(a.sort), -a.cv)
	}
	return newTerm("bvneg", a.sort, a)
}

func bvExtract(a *Term, hi, lo int) *Term {
	w := hi - lo + 1
	if a.isConst() {
		return mkBV(w, a.cv>>uint(lo))
	}
	if lo == 0 && w == int(a.sort) {
		return a
	}
	// extract of zero_extend/sign_extend down to the original width or less
	if (a.op == "zext" || a.op == "sext") && lo == 0 && w <= int(a.args[0].sort) {
		return bvExtract(a.args[0], hi, lo)
	}
	return newTermNamed("extract", Sort(w), fmt.Sprintf("(_ extract %d %d)", hi, lo), a)
}

func bvZext(a *Term, w int) *Term {
	if int(a.sort) == w {
		return a
	}
	if int(a.sort) > w {
		return bvExtract(a, w-1, 0)
	}
	if a.isConst() {
		return mkBV(w, a.cv)
	}
	return newTermNamed("zext", Sort(w), fmt.Sprintf("(_ zero_extend %d)", w-int(a.sort)), a)
}

func bvSext(a *Term, w int) *Term {
	if int(a.sort) == w {
		return a
	}
	if int(a.sort) > w {
		return bvExtract(a, w-1, 0)
	}
	if a.isConst() {
		return mkBV(w, uint64(a.sval()))
	}
	return newTermNamed("sext", Sort(w), fmt.Sprintf("(_ sign_extend %d)", w-int(a.sort)), a)
}

// ---- mathematical Int (ranks, choices)

func intCmp(op string, a, b *Term) *Term {
	if a.isConst() && b.isConst() {
		x, y := int64(a.cv), int64(b.cv)
		switch op {
		case "<":
			return mkBool(x < y)
		case "<=":
			return mkBool(x <= y)
		case ">":
			return mkBool(x > y)
		case ">=":
			return mkBool(x >= y)
		}
	}
	if a == b {
		return mkBool(op == "<=" || op == ">=")
	}
	return newTerm(op, SBool, a, b)
}

// ---- printing

func (t *Term) constString() string {
	switch {
	case t.sort == SBool:
		if t.cv != 0 {
			return "true"
		}
		return "false"
	case t.sort == SInt:
		v := int64(t.cv)
		if v < 0 {
			return "(- " + strconv.FormatInt(-v, 10) + ")"
		}
		return strconv.FormatInt(v, 10)
	}
	w := int(t.sort)
	if w%4 == 0 {
		return fmt.Sprintf("#x%0*x", w/4, t.cv)
	}
	return fmt.Sprintf("#b%0*b", w, t.cv)
}

// head of the SMT application for a non-leaf term
func (t *Term) head() string {
	switch t.op {
	case "extract", "zext", "sext":
		return t.name
	}
	return t.op
}

// String prints the full tree (debugging / samples); bounded depth.
func (t *Term) String() string {
	var sb strings.Builder
	t.write(&sb, 12)
	return sb.String()
}

func (t *Term) write(sb *strings.Builder, depth int) {
	switch t.op {
	case "const":
		sb.WriteString(t.constString())
		return
	case "var":
		sb.WriteString(t.name)
		return
	}
	if depth == 0 {
		sb.WriteString("…")
		return
	}
	sb.WriteString("(")
	sb.WriteString(t.head())
	for _, a := range t.args {
		sb.WriteString(" ")
		a.write(sb, depth-1)
	}
	sb.WriteString(")")
}

func log2u(x uint64) (int, bool) {
	if x != 0 && x&(x-1) == 0 {
		return bits.TrailingZeros64(x), true
	}
	return 0, false
}
