package main

// One long-lived SMT solver process (z3 -in by default), driven with push/pop.

import (
	"bufio"
	"fmt"
	"io"
	"os"
	"os/exec"
	"strconv"
	"strings"
	"time"
)

type SatResult int

const (
	Unsat SatResult = iota
	Sat
	Unknown
)

func (r SatResult) String() string { return [...]string{"unsat", "sat", "unknown"}[r] }

type Solver struct {
	cmd   *exec.Cmd
	in    io.WriteCloser
	out   *bufio.Reader
	level int
	gen   int // bumped on every pop so that stale emit marks are ignored

	// per-level bookkeeping
	declared  map[string]int // var name -> level declared at
	declStack [][]string     // names declared at each level
	emitStack [][]*Term      // terms defined at each level
	levelGen  []int          // generation stamp of each live level

	defAsserted map[*Term]int // defining constraint -> level it is asserted at
	dirty       bool          // something was sent since the last check-sat: the model is stale
	SendTime    time.Duration
	ValuesTime  time.Duration
	ValuesCalls int
	ReadTime    time.Duration
	SendBytes   int64
	Queries     int
	SatCount    int
	UnsatCount  int
	UnknownCnt  int
	Errors      []string
	Time        time.Duration
	log         io.Writer // optional transcript
	name        string
	timeoutMs   int
	retrying    bool
	Retries     int // queries re-issued with a longer timeout after an unknown
	Defs        int // definitions sent to the current process
	epoch       int // identifies the solver process: terms defined in an earlier process are re-sent
	Restarts    int
}

var solverEpoch = 0

func solverCommand(kind string, timeoutMs int) (string, []string) {
	switch kind {
	case "z3-new":
		return "z3-new", []string{"-in", "-t:" + strconv.Itoa(timeoutMs)}
	case "cvc5":
		return "cvc5", []string{"--incremental", "--lang=smt2", "--tlimit-per=" + strconv.Itoa(timeoutMs), "--produce-models"}
	}
	return "z3", []string{"-in", "-t:" + strconv.Itoa(timeoutMs)}
}

func NewSolver(kind string, timeoutMs int, transcript io.Writer) (*Solver, error) {
	s := &Solver{log: transcript, name: kind, timeoutMs: timeoutMs}
	if err := s.start(); err != nil {
		return nil, err
	}
	return s, nil
}

// start launches a fresh solver process and resets all per-process bookkeeping.
func (s *Solver) start() error {
	prog, args := solverCommand(s.name, s.timeoutMs)
	cmd := exec.Command(prog, args...)
	in, err := cmd.StdinPipe()
	if err != nil {
		return err
	}
	out, err := cmd.StdoutPipe()
	if err != nil {
		return err
	}
	cmd.Stderr = os.Stderr
	if err := cmd.Start(); err != nil {
		return err
	}
	s.cmd, s.in, s.out = cmd, in, bufio.NewReaderSize(out, 1<<16)
	s.declared = map[string]int{}
	s.level, s.gen = 0, 0
	s.declStack = [][]string{nil}
	s.emitStack = [][]*Term{nil}
	s.levelGen = []int{0}
	s.dirty = false
	solverEpoch++
	s.epoch = solverEpoch
	if s.name == "cvc5" {
		s.send("(set-logic ALL)")
	}
	s.send("(set-option :print-success false)")
	s.send("(set-option :produce-models true)")
	// declarations and definitions survive pop: hash-consed terms are sent once
	if s.name == "cvc5" {
		s.send("(set-option :global-declarations true)")
	} else {
		s.send("(set-option :global-decls true)")
	}
	s.defAsserted = map[*Term]int{}
	s.Defs = 0
	return nil
}

// Restart replaces the solver process by a fresh one (empty assertion stack, no
// definitions). Used to bound memory on very long runs: the caller re-asserts the
// current decision prefix on the next path.
func (s *Solver) Restart() error {
	s.Close()
	s.Restarts++
	return s.start()
}

func (s *Solver) Close() {
	if s.cmd != nil {
		s.in.Close()
		s.cmd.Process.Kill()
		s.cmd.Wait()
		s.cmd = nil
	}
}

func (s *Solver) send(line string) {
	if strings.HasPrefix(line, "(declare-") || strings.HasPrefix(line, "(define-") || strings.HasPrefix(line, "(assert") || strings.HasPrefix(line, "(push") || strings.HasPrefix(line, "(pop") {
		s.dirty = true
	}
	if s.log != nil {
		fmt.Fprintln(s.log, line)
	}
	t0 := time.Now()
	io.WriteString(s.in, line)
	io.WriteString(s.in, "\n")
	s.SendTime += time.Since(t0)
	s.SendBytes += int64(len(line) + 1)
}

func (s *Solver) readLine() string {
	t0 := time.Now()
	defer func() { s.ReadTime += time.Since(t0) }()
	line, err := s.out.ReadString('\n')
	if err != nil {
		s.Errors = append(s.Errors, "solver died: "+err.Error())
		return "(error \"solver died\")"
	}
	line = strings.TrimSpace(line)
	if s.log != nil {
		fmt.Fprintln(s.log, "; <- "+line)
	}
	return line
}

func (s *Solver) Push() {
	s.send("(push 1)")
	s.level++
	s.gen++
	s.declStack = append(s.declStack, nil)
	s.emitStack = append(s.emitStack, nil)
	s.levelGen = append(s.levelGen, s.gen)
}

func (s *Solver) Pop() {
	if s.level == 0 {
		panic("solver: pop at level 0")
	}
	s.send("(pop 1)")
	for c, lvl := range s.defAsserted {
		if lvl >= s.level {
			delete(s.defAsserted, c)
		}
	}
	s.declStack = s.declStack[:s.level]
	s.emitStack = s.emitStack[:s.level]
	s.levelGen = s.levelGen[:s.level]
	s.level--
}

func (s *Solver) PopTo(level int) {
	for s.level > level {
		s.Pop()
	}
}

// ref returns the SMT text referring to t, emitting definitions for t's
// not-yet-defined sub-terms first.
func (s *Solver) ref(t *Term) string {
	// defining constraints of auxiliary variables mentioned by t must be live
	for _, c := range t.defs {
		if _, ok := s.defAsserted[c]; !ok {
			s.defAsserted[c] = s.level
			s.send("(assert " + s.ref(c) + ")")
		}
	}
	switch t.op {
	case "const":
		return t.constString()
	case "var":
		if _, ok := s.declared[t.name]; !ok {
			s.send("(declare-const " + t.name + " " + t.sort.String() + ")")
			s.declared[t.name] = 0
		}
		return t.name
	}
	if t.emitEpoch == s.epoch {
		return "t" + strconv.Itoa(t.id)
	}
	parts := make([]string, len(t.args))
	for i, a := range t.args {
		parts[i] = s.ref(a)
	}
	name := "t" + strconv.Itoa(t.id)
	if t.emitEpoch == s.epoch {
		// defined meanwhile by a nested reference (a defining constraint that mentions t)
		return name
	}
	s.send("(define-fun " + name + " () " + t.sort.String() + " (" + t.head() + " " + strings.Join(parts, " ") + "))")
	t.emitEpoch = s.epoch
	s.Defs++
	return name
}

func (s *Solver) Assert(t *Term) {
	if t.isTrue() {
		return
	}
	s.send("(assert " + s.ref(t) + ")")
}

// Check answers the satisfiability of the current stack. An `unknown` (per-query
// timeout, e.g. under machine load) is retried once with six times the budget before it
// is passed on as inconclusive.
func (s *Solver) Check() SatResult {
	r := s.check1()
	if r == Unknown && s.name != "cvc5" && !s.retrying {
		s.retrying = true
		s.UnknownCnt--
		s.Retries++
		s.send(fmt.Sprintf("(set-option :timeout %d)", s.timeoutMs*6))
		r = s.check1()
		s.send(fmt.Sprintf("(set-option :timeout %d)", s.timeoutMs))
		s.retrying = false
	}
	return r
}

func (s *Solver) check1() SatResult {
	start := time.Now()
	s.send("(check-sat)")
	s.dirty = false
	s.Queries++
	var res SatResult
	for {
		line := s.readLine()
		switch {
		case line == "sat":
			res = Sat
			s.SatCount++
		case line == "unsat":
			res = Unsat
			s.UnsatCount++
		case line == "unknown" || line == "timeout":
			res = Unknown
			s.UnknownCnt++
		case strings.HasPrefix(line, "(error"):
			s.Errors = append(s.Errors, line)
			if strings.Contains(line, "solver died") {
				res = Unknown
				s.UnknownCnt++
				s.Time += time.Since(start)
				return res
			}
			continue
		case line == "":
			continue
		default:
			s.Errors = append(s.Errors, "unexpected solver output: "+line)
			continue
		}
		break
	}
	d := time.Since(start)
	s.Time += d
	if s.log != nil && d > 50*time.Millisecond {
		fmt.Fprintf(s.log, "; SLOW %v\n", d)
	}
	return res
}

// CheckWith checks satisfiability of the current stack plus extra, leaving
// the stack unchanged.
func (s *Solver) CheckWith(extra *Term) SatResult {
	s.Push()
	s.Assert(extra)
	r := s.Check()
	s.Pop()
	return r
}

// Values returns the model values of the given variables (after a Sat answer).
// Must be called before any push/pop.
func (s *Solver) Values(vars []*Term) map[string]uint64 {
	t0 := time.Now()
	defer func() { s.ValuesTime += time.Since(t0); s.ValuesCalls++ }()
	res := map[string]uint64{}
	if len(vars) == 0 {
		return res
	}
	var names []string
	for _, v := range vars {
		names = append(names, s.ref(v))
	}
	if s.dirty {
		// new declarations invalidate the solver's model: re-establish it
		if s.Check() != Sat {
			return res
		}
	}
	s.send("(get-value (" + strings.Join(names, " ") + "))")
	// read a balanced s-expression
	var sb strings.Builder
	depth := 0
	started := false
	for {
		line := s.readLine()
		if strings.HasPrefix(line, "(error") {
			s.Errors = append(s.Errors, line)
			return res
		}
		sb.WriteString(line)
		sb.WriteString(" ")
		for _, c := range line {
			if c == '(' {
				depth++
				started = true
			} else if c == ')' {
				depth--
			}
		}
		if started && depth <= 0 {
			break
		}
	}
	toks := tokenize(sb.String())
	// ((name value) (name value) ...) ; value may be #x.., #b.., true, false, N, (- N), (_ bvN w)
	i := 0
	if i < len(toks) && toks[i] == "(" {
		i++
	}
	for i < len(toks) && toks[i] == "(" {
		i++
		name := toks[i]
		i++
		var val uint64
		if toks[i] == "(" {
			// (- N) or (_ bvN w)
			if toks[i+1] == "-" {
				n, _ := strconv.ParseInt(toks[i+2], 10, 64)
				val = uint64(-n)
				i += 4
			} else if toks[i+1] == "_" {
				n, _ := strconv.ParseUint(strings.TrimPrefix(toks[i+2], "bv"), 10, 64)
				val = n
				i += 5
			} else {
				// skip unknown
				d := 0
				for {
					if toks[i] == "(" {
						d++
					} else if toks[i] == ")" {
						d--
					}
					i++
					if d == 0 {
						break
					}
				}
			}
		} else {
			tok := toks[i]
			i++
			switch {
			case tok == "true":
				val = 1
			case tok == "false":
				val = 0
			case strings.HasPrefix(tok, "#x"):
				val, _ = strconv.ParseUint(tok[2:], 16, 64)
			case strings.HasPrefix(tok, "#b"):
				val, _ = strconv.ParseUint(tok[2:], 2, 64)
			default:
				n, _ := strconv.ParseInt(tok, 10, 64)
				val = uint64(n)
			}
		}
		res[name] = val
		if i < len(toks) && toks[i] == ")" {
			i++
		}
	}
	return res
}

func tokenize(s string) []string {
	var toks []string
	cur := ""
	for _, c := range s {
		switch c {
		case '(', ')':
			if cur != "" {
				toks = append(toks, cur)
				cur = ""
			}
			toks = append(toks, string(c))
		case ' ', '\t', '\n', '\r':
			if cur != "" {
				toks = append(toks, cur)
				cur = ""
			}
		default:
			cur += string(c)
		}
	}
	if cur != "" {
		toks = append(toks, cur)
	}
	return toks
}

// ValuesOfTerms evaluates arbitrary terms in the current model (after Sat).
func (s *Solver) ValuesOfTerms(ts []*Term) []uint64 {
	out := make([]uint64, len(ts))
	if len(ts) == 0 {
		return out
	}
	names := make([]string, len(ts))
	for i, t := range ts {
		names[i] = s.ref(t)
	}
	if s.dirty {
		if s.Check() != Sat {
			return out
		}
	}
	// evaluate one by one to keep the reply parser simple
	for i, n := range names {
		s.send("(get-value (" + n + "))")
		var sb strings.Builder
		depth, started := 0, false
		for {
			line := s.readLine()
			if strings.HasPrefix(line, "(error") {
				s.Errors = append(s.Errors, line)
				return out
			}
			sb.WriteString(line + " ")
			for _, c := range line {
				if c == '(' {
					depth++
					started = true
				} else if c == ')' {
					depth--
				}
			}
			if started && depth <= 0 {
				break
			}
		}
		toks := tokenize(sb.String())
		// ((name value))
		if len(toks) >= 5 {
			tok := toks[3]
			switch {
			case tok == "true":
				out[i] = 1
			case tok == "false":
				out[i] = 0
			case strings.HasPrefix(tok, "#x"):
				out[i], _ = strconv.ParseUint(tok[2:], 16, 64)
			case strings.HasPrefix(tok, "#b"):
				out[i], _ = strconv.ParseUint(tok[2:], 2, 64)
			case tok == "(" && len(toks) > 5 && toks[4] == "-":
				n, _ := strconv.ParseInt(toks[5], 10, 64)
				out[i] = uint64(-n)
			default:
				n, _ := strconv.ParseInt(tok, 10, 64)
				out[i] = uint64(n)
			}
		}
	}
	return out
}
