package main

// Structural model of encoding/json (reflection is not interpretable).
//
//   Marshal(v)            -> a 1-element []byte whose element is an opaque *jsonBlob carrying
//                            a JSON tree built from v by the Go field/tag rules (omitempty, "-",
//                            embedded structs are not flattened unless anonymous without tag).
//   Unmarshal(blob, &dst) -> fills dst from the tree by the Go rules (case-insensitive field
//                            match, missing fields untouched, null = no-op).
//   Unmarshal(concrete bytes, &dst) -> the bytes are parsed with the real encoding/json into
//                            a generic tree first (so syntax errors are the real ones).
//
// Outside the model: string escaping, number formats, custom (Un)MarshalJSON methods,
// symbolic (non-concrete, non-blob) input bytes.

import (
	"encoding/json"
	"fmt"
	"go/types"
	"reflect"
	"sort"
	"strings"

	"golang.org/x/tools/go/ssa"
)

type jnode struct {
	kind   byte // 'o' object, 'a' array, 's' string, 'n' number(int term), 'b' bool, 'z' null, 'r' raw (nested blob/bytes), 'f' float
	fields []jfield
	elems  []*jnode
	str    Str
	num    *Term
	signed bool
	b      *Term
	f      float64
	raw    []Value
}

type jfield struct {
	name string
	keyS Str // for maps with symbolic keys
	val  *jnode
}

type jsonBlob struct {
	root *jnode
}

func init() {
	reg("encoding/json.Marshal", func(it *Interp, fr *frame, fn *ssa.Function, args []Value) Value {
		x := it.resolveNil(fr, args[0]).(Iface)
		// a fully concrete []string is encoded by the real encoding/json (exact text, so
		// that code which goes on to transform the bytes, e.g. base64, stays concrete)
		if st, ok := x.t.Underlying().(*types.Slice); ok {
			if b, ok := st.Elem().Underlying().(*types.Basic); ok && b.Kind() == types.String {
				if sl, ok := x.v.(Slice); ok {
					strs := make([]string, 0, len(sl.a))
					concrete := true
					for _, e := range sl.a {
						es, ok := e.(Str)
						if !ok {
							concrete = false
							break
						}
						es = es.force()
						if !es.isConcrete() {
							concrete = false
							break
						}
						strs = append(strs, es.s)
					}
					if concrete {
						if data, err := json.Marshal(strs); err == nil {
							out := make([]Value, len(data))
							for i, c := range data {
								out[i] = mkBV(8, uint64(c))
							}
							return Tuple{Slice{a: out}, Iface{}}
						}
					}
				}
			}
		}
		n, err := it.jsonEncode(fr, x.t, x.v, false)
		if err != "" {
			return Tuple{Slice{}, it.errorString("json: " + err)}
		}
		return Tuple{Slice{a: []Value{&jsonBlob{root: n}}}, Iface{}}
	})
	reg("encoding/json.Unmarshal", func(it *Interp, fr *frame, fn *ssa.Function, args []Value) Value {
		data := args[0].(Slice)
		dst := it.resolveNil(fr, args[1]).(Iface)
		if dst.t == nil {
			return it.errorString("json: Unmarshal(nil)")
		}
		pt, ok := dst.t.Underlying().(*types.Pointer)
		if !ok {
			return it.errorString("json: Unmarshal(non-pointer " + dst.t.String() + ")")
		}
		p := dst.v.(*Value)
		if p == nil {
			return it.errorString("json: Unmarshal(nil " + dst.t.String() + ")")
		}
		root, errMsg := it.jsonParseBytes(data.a)
		if errMsg != "" {
			return it.errorString(errMsg)
		}
		if e := it.jsonDecodeInto(fr, root, pt.Elem(), p); e != "" {
			return it.errorString(e)
		}
		return Iface{}
	})
	reg("encoding/json.Valid", func(it *Interp, fr *frame, fn *ssa.Function, args []Value) Value {
		_, errMsg := it.jsonParseBytes(args[0].(Slice).a)
		return mkBool(errMsg == "")
	})
}

// jsonParseBytes turns the input of Unmarshal into a tree.
func (it *Interp) jsonParseBytes(data []Value) (*jnode, string) {
	var blob *jsonBlob
	var raw []byte
	for _, e := range data {
		switch e := e.(type) {
		case *jsonBlob:
			if blob != nil {
				return nil, "invalid character after top-level value"
			}
			blob = e
		case *Term:
			if !e.isConst() {
				panic(unsupported("json.Unmarshal of symbolic bytes"))
			}
			raw = append(raw, byte(e.cv))
		default:
			panic(unsupported(fmt.Sprintf("json.Unmarshal: unexpected element %T", e)))
		}
	}
	if blob != nil {
		if strings.TrimSpace(string(raw)) != "" {
			return nil, "invalid character around top-level value"
		}
		return blob.root, ""
	}
	var v interface{}
	dec := json.NewDecoder(strings.NewReader(string(raw)))
	dec.UseNumber()
	if err := json.Unmarshal(raw, &v); err != nil {
		return nil, err.Error()
	}
	// decode again with UseNumber to keep integers exact
	if err := dec.Decode(&v); err != nil {
		return nil, err.Error()
	}
	return jsonFromGeneric(v), ""
}

func jsonFromGeneric(v interface{}) *jnode {
	switch v := v.(type) {
	case nil:
		return &jnode{kind: 'z'}
	case bool:
		return &jnode{kind: 'b', b: mkBool(v)}
	case string:
		return &jnode{kind: 's', str: mkStr(v)}
	case json.Number:
		if i, err := v.Int64(); err == nil {
			return &jnode{kind: 'n', num: mkInt(i), signed: true}
		}
		f, _ := v.Float64()
		return &jnode{kind: 'f', f: f}
	case []interface{}:
		n := &jnode{kind: 'a'}
		for _, e := range v {
			n.elems = append(n.elems, jsonFromGeneric(e))
		}
		return n
	case map[string]interface{}:
		n := &jnode{kind: 'o'}
		keys := make([]string, 0, len(v))
		for k := range v {
			keys = append(keys, k)
		}
		sort.Strings(keys)
		for _, k := range keys {
			n.fields = append(n.fields, jfield{name: k, keyS: mkStr(k), val: jsonFromGeneric(v[k])})
		}
		return n
	}
	panic(fmt.Sprintf("jsonFromGeneric: %T", v))
}

type jsonFieldInfo struct {
	index     int
	name      string
	omitempty bool
	asString  bool
	embedded  bool
}

func jsonFields(st *types.Struct) []jsonFieldInfo {
	var out []jsonFieldInfo
	for i := 0; i < st.NumFields(); i++ {
		f := st.Field(i)
		tag := reflect.StructTag(st.Tag(i)).Get("json")
		if tag == "-" {
			continue
		}
		name, opts, _ := strings.Cut(tag, ",")
		if !f.Exported() && !f.Embedded() {
			continue
		}
		fi := jsonFieldInfo{index: i, name: name, omitempty: strings.Contains(opts, "omitempty"), asString: strings.Contains(","+opts+",", ",string,")}
		if name == "" {
			if f.Embedded() {
				if _, ok := f.Type().Underlying().(*types.Struct); ok {
					fi.embedded = true
				} else if p, ok := f.Type().Underlying().(*types.Pointer); ok {
					if _, ok := p.Elem().Underlying().(*types.Struct); ok {
						fi.embedded = true
					}
				}
			}
			fi.name = f.Name()
		}
		if !f.Exported() && !fi.embedded {
			continue
		}
		out = append(out, fi)
	}
	return out
}

func isRawMessage(t types.Type) bool {
	n, ok := t.(*types.Named)
	return ok && n.Obj().Pkg() != nil && n.Obj().Pkg().Path() == "encoding/json" && n.Obj().Name() == "RawMessage"
}

func (it *Interp) jsonIsEmpty(v Value) bool {
	switch v := v.(type) {
	case *Term:
		return v.isConst() && v.cv == 0
	case Str:
		s := v.force()
		if s.isAtom() {
			return false
		}
		return s.Len() == 0
	case Slice:
		return len(v.a) == 0
	case *Map:
		return v == nil || len(v.entries) == 0
	case *Value:
		return v == nil
	case Iface:
		return v.t == nil
	case float64:
		return v == 0
	}
	return false
}

// jsonEncode builds the tree for a Go value of static type t.
func (it *Interp) jsonEncode(fr *frame, t types.Type, v Value, inStringOpt bool) (*jnode, string) {
	if mn, ok := v.(MaybeNil); ok {
		v = it.resolveNil(fr, mn)
	}
	if isRawMessage(t) {
		sl := v.(Slice)
		if sl.a == nil {
			return &jnode{kind: 'z'}, ""
		}
		return &jnode{kind: 'r', raw: sl.a}, ""
	}
	if it.findMethod(t, "MarshalJSON") != nil || it.findMethod(types.NewPointer(t), "MarshalJSON") != nil {
		if !isRawMessage(t) {
			panic(unsupported("json.Marshal of a type with a MarshalJSON method: " + t.String()))
		}
	}
	switch u := t.Underlying().(type) {
	case *types.Basic:
		switch {
		case u.Info()&types.IsBoolean != 0:
			return &jnode{kind: 'b', b: v.(*Term)}, ""
		case u.Info()&types.IsString != 0:
			return &jnode{kind: 's', str: v.(Str)}, ""
		case u.Info()&types.IsInteger != 0:
			_, signed, _ := intWidth(u)
			x := v.(*Term)
			return &jnode{kind: 'n', num: to64(x, signed), signed: signed}, ""
		case u.Info()&types.IsFloat != 0:
			return &jnode{kind: 'f', f: v.(float64)}, ""
		}
	case *types.Pointer:
		p := v.(*Value)
		if p == nil {
			return &jnode{kind: 'z'}, ""
		}
		return it.jsonEncode(fr, u.Elem(), *p, false)
	case *types.Interface:
		x := v.(Iface)
		if x.t == nil {
			return &jnode{kind: 'z'}, ""
		}
		return it.jsonEncode(fr, x.t, x.v, false)
	case *types.Struct:
		s := v.(Struct)
		n := &jnode{kind: 'o'}
		for _, fi := range jsonFields(u) {
			fv := s[fi.index]
			ft := u.Field(fi.index).Type()
			if fi.embedded {
				sub, e := it.jsonEncode(fr, ft, fv, false)
				if e != "" {
					return nil, e
				}
				if sub.kind == 'o' {
					n.fields = append(n.fields, sub.fields...)
				}
				continue
			}
			if fi.omitempty && it.jsonIsEmpty(fv) {
				continue
			}
			sub, e := it.jsonEncode(fr, ft, fv, fi.asString)
			if e != "" {
				return nil, e
			}
			n.fields = append(n.fields, jfield{name: fi.name, keyS: mkStr(fi.name), val: sub})
		}
		return n, ""
	case *types.Slice:
		sl := v.(Slice)
		if sl.a == nil {
			return &jnode{kind: 'z'}, ""
		}
		if b, ok := u.Elem().Underlying().(*types.Basic); ok && b.Kind() == types.Uint8 {
			// []byte marshals as base64 text; modelled as a string node carrying the bytes
			return &jnode{kind: 's', str: strFromBytes(bytesOfSlice(sl))}, ""
		}
		n := &jnode{kind: 'a'}
		for _, e := range sl.a {
			sub, er := it.jsonEncode(fr, u.Elem(), e, false)
			if er != "" {
				return nil, er
			}
			n.elems = append(n.elems, sub)
		}
		return n, ""
	case *types.Array:
		n := &jnode{kind: 'a'}
		for _, e := range v.(Array) {
			sub, er := it.jsonEncode(fr, u.Elem(), e, false)
			if er != "" {
				return nil, er
			}
			n.elems = append(n.elems, sub)
		}
		return n, ""
	case *types.Map:
		m := v.(*Map)
		if m == nil {
			return &jnode{kind: 'z'}, ""
		}
		n := &jnode{kind: 'o'}
		for _, e := range m.entries {
			ks, ok := e.k.(Str)
			if !ok {
				panic(unsupported("json.Marshal of a map with non-string keys"))
			}
			sub, er := it.jsonEncode(fr, u.Elem(), e.v, false)
			if er != "" {
				return nil, er
			}
			name := ""
			if ks.isConcrete() {
				name = ks.s
			}
			n.fields = append(n.fields, jfield{name: name, keyS: ks, val: sub})
		}
		return n, ""
	}
	return nil, "unsupported type: " + t.String()
}

func (it *Interp) jsonTypeErr(n *jnode, t types.Type) string {
	what := map[byte]string{'o': "object", 'a': "array", 's': "string", 'n': "number", 'f': "number", 'b': "bool", 'r': "raw"}[n.kind]
	return "json: cannot unmarshal " + what + " into Go value of type " + t.String()
}

// jsonDecodeInto stores the tree n into *p of type t following encoding/json's rules.
func (it *Interp) jsonDecodeInto(fr *frame, n *jnode, t types.Type, p *Value) string {
	if n.kind == 'r' {
		// nested raw message produced by Marshal: parse it now
		sub, e := it.jsonParseBytes(n.raw)
		if e != "" {
			return e
		}
		if isRawMessage(t) {
			it.storeAt(p, Slice{a: append([]Value{}, n.raw...)})
			return ""
		}
		return it.jsonDecodeInto(fr, sub, t, p)
	}
	if isRawMessage(t) {
		it.storeAt(p, Slice{a: []Value{&jsonBlob{root: n}}})
		return ""
	}
	if it.findMethod(types.NewPointer(t), "UnmarshalJSON") != nil {
		panic(unsupported("json.Unmarshal into a type with an UnmarshalJSON method: " + t.String()))
	}
	if n.kind == 'z' {
		switch t.Underlying().(type) {
		case *types.Pointer, *types.Interface, *types.Map, *types.Slice:
			it.storeAt(p, zero(t))
		}
		return ""
	}
	switch u := t.Underlying().(type) {
	case *types.Basic:
		switch {
		case u.Info()&types.IsBoolean != 0:
			if n.kind != 'b' {
				return it.jsonTypeErr(n, t)
			}
			it.storeAt(p, n.b)
			return ""
		case u.Info()&types.IsString != 0:
			if n.kind != 's' {
				return it.jsonTypeErr(n, t)
			}
			it.storeAt(p, n.str)
			return ""
		case u.Info()&types.IsInteger != 0:
			if n.kind == 'f' {
				return "json: cannot unmarshal number " + fmt.Sprint(n.f) + " into Go value of type " + t.String()
			}
			if n.kind != 'n' {
				return it.jsonTypeErr(n, t)
			}
			w, signed, _ := intWidth(u)
			x := n.num
			// range check (the number must fit the destination)
			if w < 64 || signed != n.signed {
				var fits *Term
				if signed {
					lo, hi := int64(-1)<<(uint(w)-1), int64(1)<<(uint(w)-1)-1
					if w == 64 {
						// unsigned source into int64: must be <= MaxInt64
						fits = bvCmp("bvsge", x, mkInt(0))
					} else if n.signed {
						fits = mkAnd(bvCmp("bvsge", x, mkInt(lo)), bvCmp("bvsle", x, mkInt(hi)))
					} else {
						fits = bvCmp("bvule", x, mkInt(hi))
					}
				} else {
					if n.signed {
						fits = bvCmp("bvsge", x, mkInt(0))
						if w < 64 {
							fits = mkAnd(fits, bvCmp("bvsle", x, mkInt(int64(mask(Sort(w))))))
						}
					} else if w < 64 {
						fits = bvCmp("bvule", x, mkBV(64, mask(Sort(w))))
					} else {
						fits = tTrue
					}
				}
				if !it.ex.branch(fits) {
					return "json: cannot unmarshal number into Go value of type " + t.String() + " (out of range)"
				}
			}
			if w < 64 {
				x = bvExtract(x, w-1, 0)
			}
			it.storeAt(p, x)
			return ""
		case u.Info()&types.IsFloat != 0:
			switch n.kind {
			case 'f':
				it.storeAt(p, n.f)
			case 'n':
				if !n.num.isConst() {
					panic(unsupported("json: symbolic integer into float field"))
				}
				it.storeAt(p, float64(n.num.sval()))
			default:
				return it.jsonTypeErr(n, t)
			}
			return ""
		}
	case *types.Pointer:
		cur := (*p).(*Value)
		if cur == nil {
			cell := zero(u.Elem())
			cur = &cell
			it.storeAt(p, cur)
		}
		return it.jsonDecodeInto(fr, n, u.Elem(), cur)
	case *types.Interface:
		if u.NumMethods() != 0 {
			return it.jsonTypeErr(n, t)
		}
		it.storeAt(p, it.jsonGenericValue(n))
		return ""
	case *types.Struct:
		if n.kind != 'o' {
			return it.jsonTypeErr(n, t)
		}
		sp := (*p).(Struct)
		for _, f := range n.fields {
			if !f.keyS.isConcrete() {
				panic(unsupported("json: object with symbolic key into a struct"))
			}
			if e := it.jsonSetField(fr, u, sp, f.name, f.val); e != "" {
				return e
			}
		}
		return ""
	case *types.Slice:
		if b, ok := u.Elem().Underlying().(*types.Basic); ok && b.Kind() == types.Uint8 && n.kind == 's' {
			it.storeAt(p, sliceOfBytes(n.str.force().bytes()))
			return ""
		}
		if n.kind != 'a' {
			return it.jsonTypeErr(n, t)
		}
		out := make([]Value, len(n.elems))
		for i, e := range n.elems {
			out[i] = zero(u.Elem())
			if er := it.jsonDecodeInto(fr, e, u.Elem(), &out[i]); er != "" {
				return er
			}
		}
		it.storeAt(p, Slice{a: out})
		return ""
	case *types.Map:
		if n.kind != 'o' {
			return it.jsonTypeErr(n, t)
		}
		if !isString(u.Key()) {
			panic(unsupported("json: map with non-string keys"))
		}
		m, _ := (*p).(*Map)
		if m == nil {
			m = newMap(u)
			it.storeAt(p, m)
		}
		for _, f := range n.fields {
			cell := zero(u.Elem())
			if i := it.mapFind(fr, m, f.keyS); i >= 0 {
				cell = copyVal(m.entries[i].v)
			}
			if er := it.jsonDecodeInto(fr, f.val, u.Elem(), &cell); er != "" {
				return er
			}
			it.mapUpdate(fr, m, f.keyS, cell)
		}
		return ""
	}
	panic(unsupported("json.Unmarshal into " + t.String()))
}

func (it *Interp) jsonSetField(fr *frame, st *types.Struct, sp Struct, name string, val *jnode) string {
	// exact match first, then case-insensitive; embedded structs searched afterwards
	var cand *jsonFieldInfo
	fields := jsonFields(st)
	for i := range fields {
		if !fields[i].embedded && fields[i].name == name {
			cand = &fields[i]
			break
		}
	}
	if cand == nil {
		for i := range fields {
			if !fields[i].embedded && strings.EqualFold(fields[i].name, name) {
				cand = &fields[i]
				break
			}
		}
	}
	if cand != nil {
		return it.jsonDecodeInto(fr, val, st.Field(cand.index).Type(), &sp[cand.index])
	}
	for i := range fields {
		if !fields[i].embedded {
			continue
		}
		ft := st.Field(fields[i].index).Type()
		if est, ok := ft.Underlying().(*types.Struct); ok {
			sub := sp[fields[i].index].(Struct)
			for _, f2 := range jsonFields(est) {
				if strings.EqualFold(f2.name, name) {
					return it.jsonSetField(fr, est, sub, name, val)
				}
			}
		}
	}
	return "" // unknown fields are ignored
}

// jsonGenericValue produces the interface{} form (map[string]any etc.).
func (it *Interp) jsonGenericValue(n *jnode) Value {
	strT := types.Typ[types.String]
	anyT := types.NewInterfaceType(nil, nil)
	switch n.kind {
	case 'z':
		return Iface{}
	case 'b':
		return Iface{t: types.Typ[types.Bool], v: n.b}
	case 's':
		return Iface{t: strT, v: n.str}
	case 'n':
		if !n.num.isConst() {
			panic(unsupported("json: symbolic number into interface{}"))
		}
		return Iface{t: types.Typ[types.Float64], v: float64(n.num.sval())}
	case 'f':
		return Iface{t: types.Typ[types.Float64], v: n.f}
	case 'a':
		out := make([]Value, len(n.elems))
		for i, e := range n.elems {
			out[i] = it.jsonGenericValue(e)
		}
		return Iface{t: types.NewSlice(anyT), v: Slice{a: out}}
	case 'o':
		mt := types.NewMap(strT, anyT)
		m := newMap(mt)
		for _, f := range n.fields {
			m.entries = append(m.entries, &mapEntry{k: f.keyS, v: it.jsonGenericValue(f.val)})
		}
		return Iface{t: mt, v: m}
	}
	panic(unsupported("json generic value"))
}
