package main

import (
	"fmt"
	"go/types"
	"unicode/utf8"

	"golang.org/x/tools/go/ssa"
)

// Map is an insertion-ordered association list. A lookup with a key whose equality
// with an entry's key is not decided concretely forks on it.
type Map struct {
	t       *types.Map
	entries []*mapEntry
}

type mapEntry struct {
	k, v Value
}

func newMap(t *types.Map) *Map { return &Map{t: t} }

// find returns the index of the entry equal to key (forking on symbolic equalities) or -1.
func (it *Interp) mapFind(fr *frame, m *Map, key Value) int {
	kt := m.t.Key()
	for i, e := range m.entries {
		eq := it.equalsTerm(fr, kt, e.k, key)
		if eq.isTrue() {
			return i
		}
		if eq.isFalse() {
			continue
		}
		if it.ex.branch(eq) {
			return i
		}
	}
	return -1
}

func (it *Interp) lookup(fr *frame, instr *ssa.Lookup, x, idx Value) Value {
	x = it.resolveNil(fr, x)
	switch x := x.(type) {
	case *Map:
		vt := instr.X.Type().Underlying().(*types.Map).Elem()
		var v Value
		ok := false
		if x != nil && it.lockLog != nil {
			it.lockLog.accessObj(fr, x, false)
		}
		if x != nil {
			if i := it.mapFind(fr, x, idx); i >= 0 {
				v = copyVal(x.entries[i].v)
				ok = true
			}
		}
		if !ok {
			v = zero(vt)
		}
		if instr.CommaOk {
			return Tuple{v, mkBool(ok)}
		}
		return v
	case Str:
		// string index via Lookup
		i := idxTerm(idx, instr.Index.Type())
		n := x.Len()
		if i.isConst() {
			k := i.sval()
			if k < 0 || k >= int64(n) {
				panic(targetPanic{implicit: fmt.Sprintf("index out of range [%d] with length %d", k, n)})
			}
			return x.byteAt(int(k))
		}
		it.boundsCheck(i, n, "string index")
		var res *Term
		for k := n - 1; k >= 0; k-- {
			if res == nil {
				res = x.byteAt(k)
			} else {
				res = mkIte(mkEq(i, mkBV(64, uint64(k))), x.byteAt(k), res)
			}
		}
		return res
	}
	panic(fmt.Sprintf("lookup: %T", x))
}

func (it *Interp) mapUpdate(fr *frame, m *Map, key, val Value) {
	it.impure("map update")
	if it.lockLog != nil {
		it.lockLog.accessObj(fr, m, true)
	}
	i := it.mapFind(fr, m, key)
	if i >= 0 {
		e := m.entries[i]
		old := e.v
		it.ex.journal = append(it.ex.journal, undoEntry{fn: func() { e.v = old }})
		e.v = copyVal(val)
		return
	}
	old := m.entries
	it.ex.journal = append(it.ex.journal, undoEntry{fn: func() { m.entries = old }})
	m.entries = append(append([]*mapEntry{}, m.entries...), &mapEntry{k: copyVal(key), v: copyVal(val)})
}

func (it *Interp) mapDelete(fr *frame, m *Map, key Value) {
	it.impure("map delete")
	if it.lockLog != nil {
		it.lockLog.accessObj(fr, m, true)
	}
	i := it.mapFind(fr, m, key)
	if i < 0 {
		return
	}
	old := m.entries
	it.ex.journal = append(it.ex.journal, undoEntry{fn: func() { m.entries = old }})
	n := append([]*mapEntry{}, m.entries[:i]...)
	m.entries = append(n, m.entries[i+1:]...)
}

// ---- iteration

type iterator interface {
	next(fr *frame) Value
}

type stringIter struct {
	s   Str
	pos int
}

func (si *stringIter) next(fr *frame) Value {
	n := si.s.Len()
	if si.pos >= n {
		return Tuple{tFalse, mkBV(64, 0), mkBV(32, 0)}
	}
	if si.s.isConcrete() {
		r, sz := utf8.DecodeRuneInString(si.s.s[si.pos:])
		p := si.pos
		si.pos += sz
		return Tuple{tTrue, mkBV(64, uint64(p)), mkBV(32, uint64(r))}
	}
	b := si.s.byteAt(si.pos)
	if b.isConst() && b.cv >= 0x80 {
		// concrete multi-byte sequence inside a partially symbolic string
		end := si.pos
		var buf []byte
		for end < n && len(buf) < 4 && si.s.byteAt(end).isConst() {
			buf = append(buf, byte(si.s.byteAt(end).cv))
			end++
		}
		r, sz := utf8.DecodeRune(buf)
		p := si.pos
		si.pos += sz
		return Tuple{tTrue, mkBV(64, uint64(p)), mkBV(32, uint64(r))}
	}
	// symbolic byte: the engine's documented restriction is ASCII for rune iteration
	if !b.isConst() {
		ascii := bvCmp("bvult", b, mkBV(8, 0x80))
		if !fr.it.ex.branch(ascii) {
			// a lone byte >= 0x80: model as RuneError of width 1 (exact for invalid
			// UTF-8; over-approximates valid multi-byte sequences)
			p := si.pos
			si.pos++
			fr.it.mstate.assumptions["range over string: symbolic bytes >= 0x80 are decoded as a 1-byte RuneError"] = true
			return Tuple{tTrue, mkBV(64, uint64(p)), mkBV(32, uint64(utf8.RuneError))}
		}
	}
	p := si.pos
	si.pos++
	return Tuple{tTrue, mkBV(64, uint64(p)), bvZext(b, 32)}
}

type mapIter struct {
	m     *Map
	order []*mapEntry
	pos   int
	sym   bool
	it    *Interp
}

func (mi *mapIter) next(fr *frame) Value {
	if mi.m == nil {
		return Tuple{tFalse, nil, nil}
	}
	for {
		if mi.sym {
			// symbolic order: choose any not-yet-visited live entry
			var cands []*mapEntry
			for _, e := range mi.m.entries {
				seen := false
				for _, o := range mi.order {
					if o == e {
						seen = true
					}
				}
				if !seen {
					cands = append(cands, e)
				}
			}
			if len(cands) == 0 {
				return Tuple{tFalse, zero(mi.m.t.Key()), zero(mi.m.t.Elem())}
			}
			j := mi.it.ex.chooseFree("maporder", len(cands))
			e := cands[j]
			mi.order = append(mi.order, e)
			return Tuple{tTrue, copyVal(e.k), copyVal(e.v)}
		}
		if mi.pos >= len(mi.order) {
			return Tuple{tFalse, zero(mi.m.t.Key()), zero(mi.m.t.Elem())}
		}
		e := mi.order[mi.pos]
		mi.pos++
		// skip entries deleted during iteration
		live := false
		for _, c := range mi.m.entries {
			if c == e {
				live = true
				break
			}
		}
		if !live {
			continue
		}
		return Tuple{tTrue, copyVal(e.k), copyVal(e.v)}
	}
}

func (it *Interp) rangeIter(fr *frame, x Value, t types.Type) iterator {
	x = it.resolveNil(fr, x)
	switch x := x.(type) {
	case *Map:
		if x == nil {
			return &mapIter{}
		}
		if it.lockLog != nil {
			it.lockLog.accessObj(fr, x, false)
		}
		if it.mstate.symbolicMapOrder {
			return &mapIter{m: x, sym: true, it: it}
		}
		return &mapIter{m: x, order: append([]*mapEntry{}, x.entries...), it: it}
	case Str:
		return &stringIter{s: x}
	}
	panic(fmt.Sprintf("rangeIter: %T", x))
}
