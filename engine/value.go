package main

// Interpreter values. Modelled on x/tools/go/ssa/interp: boxed values, Go-native
// pointers (*Value) into cells, structures and slices; integers and booleans are
// SMT terms; strings have a concrete length and possibly symbolic bytes.
//
//  - *Term           bool and every integer type (sort Bool / BitVec n)
//  - float64         floating point values (concrete only)
//  - Str             strings
//  - Struct          []Value, copied on load/store
//  - Array           []Value, copied on load/store
//  - *Value          pointers
//  - Slice           slices (backing []Value with Go slice semantics)
//  - *Map            maps
//  - Iface           interfaces
//  - *ssa.Function, *Closure, *ssa.Builtin, *Native   functions
//  - Tuple           multi-value results
//  - *Chan           channels
//  - MaybeNil        a pointer/func/interface value that is nil iff a Bool term holds

import (
	"fmt"
	"go/types"
	"strings"

	"golang.org/x/tools/go/ssa"
)

type Value interface{}

type Tuple []Value
type Struct []Value
type Array []Value

type Slice struct {
	a []Value // Go slice semantics; nil slice iff a == nil
}

type Iface struct {
	t types.Type // nil for the nil interface
	v Value
}

type Closure struct {
	Fn  *ssa.Function
	Env []Value
}

// Native is an engine-implemented function value.
type Native struct {
	name string
	fn   func(fr *frame, args []Value) Value
}

type MaybeNil struct {
	isNil *Term
	v     Value
	t     types.Type
}

// Str is a string value: concrete (sym == nil, atom == nil), byte-symbolic
// (sym != nil; len(sym) is the length) or an atom (atom != nil).
type Str struct {
	s     string
	sym   []*Term
	atom  *Term // Int-sorted rank
	aname string
	lazy  *lazyStr  // formatted text that is only materialised when inspected
	spans []numSpan // decimal renderings of known integer terms inside the string
}

// numSpan records that bytes [lo,hi) are the decimal rendering (strconv.FormatInt
// base 10) of val. Parsing exactly that span back yields val (summary of the pure
// pair FormatInt/ParseInt).
type numSpan struct {
	lo, hi int
	val    *Term // 64-bit
	signed bool
}

type lazyStr struct {
	f    func() Str
	done bool
	val  Str
	desc string
}

// force materialises a lazy string (may fork).
func (s Str) force() Str {
	if s.lazy == nil {
		return s
	}
	if !s.lazy.done {
		s.lazy.val = s.lazy.f().force()
		s.lazy.done = true
	}
	return s.lazy.val
}

func mkStr(s string) Str { return Str{s: s} }

func (s Str) isConcrete() bool { return s.sym == nil && s.atom == nil && s.lazy == nil }
func (s Str) isAtom() bool     { return s.atom != nil }

func (s Str) Len() int {
	if s.lazy != nil {
		return s.force().Len()
	}
	if s.atom != nil {
		panic(unsupported("len of atom string " + s.aname))
	}
	if s.sym != nil {
		return len(s.sym)
	}
	return len(s.s)
}

func (s Str) byteAt(i int) *Term {
	if s.lazy != nil {
		return s.force().byteAt(i)
	}
	if s.sym != nil {
		return s.sym[i]
	}
	return mkBV(8, uint64(s.s[i]))
}

func (s Str) bytes() []*Term {
	if s.lazy != nil {
		return s.force().bytes()
	}
	if s.atom != nil {
		panic(unsupported("bytes of atom string " + s.aname))
	}
	if s.sym != nil {
		return s.sym
	}
	out := make([]*Term, len(s.s))
	for i := 0; i < len(s.s); i++ {
		out[i] = mkBV(8, uint64(s.s[i]))
	}
	return out
}

func strFromBytes(b []*Term) Str {
	allc := true
	for _, t := range b {
		if !t.isConst() {
			allc = false
			break
		}
	}
	if allc {
		var sb strings.Builder
		for _, t := range b {
			sb.WriteByte(byte(t.cv))
		}
		return Str{s: sb.String()}
	}
	if len(b) == 0 {
		return Str{}
	}
	return Str{sym: b}
}

func (s Str) slice(lo, hi int) Str {
	if s.lazy != nil {
		return s.force().slice(lo, hi)
	}
	var out Str
	if s.sym != nil {
		out = strFromBytes(s.sym[lo:hi])
	} else {
		out = Str{s: s.s[lo:hi]}
	}
	for _, sp := range s.spans {
		if sp.lo >= lo && sp.hi <= hi {
			out.spans = append(out.spans, numSpan{sp.lo - lo, sp.hi - lo, sp.val, sp.signed})
		}
	}
	return out
}

func strConcat(a, b Str) Str {
	if a.lazy != nil || b.lazy != nil {
		if a.lazy != nil && a.lazy.done {
			return strConcat(a.lazy.val, b)
		}
		if b.lazy != nil && b.lazy.done {
			return strConcat(a, b.lazy.val)
		}
		return Str{lazy: &lazyStr{f: func() Str { return strConcat(a.force(), b.force()) }, desc: "concat"}}
	}
	if a.isConcrete() && b.isConcrete() {
		return Str{s: a.s + b.s}
	}
	if a.atom != nil || b.atom != nil {
		if a.atom != nil && b.isConcrete() && b.s == "" {
			return a
		}
		if b.atom != nil && a.isConcrete() && a.s == "" {
			return b
		}
		panic(unsupported("concatenation of atom strings"))
	}
	x := append(append([]*Term{}, a.bytes()...), b.bytes()...)
	out := strFromBytes(x)
	if len(a.spans)+len(b.spans) > 0 {
		out.spans = append(out.spans, a.spans...)
		n := a.Len()
		for _, sp := range b.spans {
			out.spans = append(out.spans, numSpan{sp.lo + n, sp.hi + n, sp.val, sp.signed})
		}
	}
	return out
}

func (s Str) String() string {
	if s.lazy != nil {
		if s.lazy.done {
			return s.lazy.val.String()
		}
		return "lazy:" + s.lazy.desc
	}
	if s.atom != nil {
		return "atom:" + s.aname
	}
	if s.sym == nil {
		return fmt.Sprintf("%q", s.s)
	}
	var sb strings.Builder
	sb.WriteString("sym\"")
	for _, t := range s.sym {
		if t.isConst() {
			c := byte(t.cv)
			if c >= 0x20 && c < 0x7f {
				sb.WriteByte(c)
			} else {
				fmt.Fprintf(&sb, "\\x%02x", c)
			}
		} else {
			sb.WriteString("?")
		}
	}
	sb.WriteString("\"")
	return sb.String()
}

// unsupported is the panic payload for anything the engine cannot encode.
type unsupportedErr struct{ msg string }

func unsupported(msg string) unsupportedErr { return unsupportedErr{msg} }
func (u unsupportedErr) Error() string      { return "unsupported: " + u.msg }

// targetPanic is a Go panic of the interpreted program.
type targetPanic struct {
	v        Value
	implicit string // non-empty for runtime panics (index out of range, nil deref ...)
}

func (p targetPanic) String() string {
	if p.implicit != "" {
		return "runtime error: " + p.implicit
	}
	return "panic: " + toString(p.v)
}

// pathEnd aborts the current path silently (infeasible / assumption failed / pruned).
type pathEnd struct{ reason string }

// ---- type helpers

func deref(t types.Type) types.Type {
	if p, ok := t.Underlying().(*types.Pointer); ok {
		return p.Elem()
	}
	panic(fmt.Sprintf("deref: not a pointer: %v", t))
}

func intWidth(t types.Type) (w int, signed bool, ok bool) {
	b, isb := t.Underlying().(*types.Basic)
	if !isb {
		return 0, false, false
	}
	switch b.Kind() {
	case types.Int, types.Int64, types.UntypedInt:
		return 64, true, true
	case types.Int8:
		return 8, true, true
	case types.Int16:
		return 16, true, true
	case types.Int32, types.UntypedRune:
		return 32, true, true
	case types.Uint, types.Uint64, types.Uintptr:
		return 64, false, true
	case types.Uint8:
		return 8, false, true
	case types.Uint16:
		return 16, false, true
	case types.Uint32:
		return 32, false, true
	}
	return 0, false, false
}

func isString(t types.Type) bool {
	b, ok := t.Underlying().(*types.Basic)
	return ok && b.Info()&types.IsString != 0
}

func isFloat(t types.Type) bool {
	b, ok := t.Underlying().(*types.Basic)
	return ok && b.Info()&types.IsFloat != 0
}

func isBoolT(t types.Type) bool {
	b, ok := t.Underlying().(*types.Basic)
	return ok && b.Info()&types.IsBoolean != 0
}

// zero returns the zero value of type t.
func zero(t types.Type) Value {
	switch t := t.(type) {
	case *types.Basic:
		if t.Kind() == types.UntypedNil {
			panic("untyped nil has no zero value")
		}
		if t.Info()&types.IsUntyped != 0 {
			t = types.Default(t).(*types.Basic)
		}
		switch {
		case t.Info()&types.IsBoolean != 0:
			return tFalse
		case t.Info()&types.IsString != 0:
			return Str{}
		case t.Info()&types.IsFloat != 0:
			return float64(0)
		case t.Kind() == types.UnsafePointer:
			return (*Value)(nil)
		case t.Info()&types.IsComplex != 0:
			return complex128(0)
		}
		w, _, ok := intWidth(t)
		if !ok {
			panic(fmt.Sprintf("zero: basic %v", t))
		}
		return mkBV(w, 0)
	case *types.Pointer:
		return (*Value)(nil)
	case *types.Array:
		a := make(Array, t.Len())
		for i := range a {
			a[i] = zero(t.Elem())
		}
		return a
	case *types.Named:
		return zero(t.Underlying())
	case *types.Alias:
		return zero(types.Unalias(t))
	case *types.Interface:
		return Iface{}
	case *types.Slice:
		return Slice{}
	case *types.Struct:
		s := make(Struct, t.NumFields())
		for i := range s {
			s[i] = zero(t.Field(i).Type())
		}
		return s
	case *types.Tuple:
		if t.Len() == 1 {
			return zero(t.At(0).Type())
		}
		s := make(Tuple, t.Len())
		for i := range s {
			s[i] = zero(t.At(i).Type())
		}
		return s
	case *types.Chan:
		return (*Chan)(nil)
	case *types.Map:
		return (*Map)(nil)
	case *types.Signature:
		return (*ssa.Function)(nil)
	case *types.TypeParam:
		panic("zero of type parameter (need InstantiateGenerics)")
	}
	panic(fmt.Sprintf("zero: unexpected %T %v", t, t))
}

// copyVal makes an unaliased copy of a struct/array value.
func copyVal(v Value) Value {
	switch v := v.(type) {
	case Struct:
		c := make(Struct, len(v))
		for i := range v {
			c[i] = copyVal(v[i])
		}
		return c
	case Array:
		c := make(Array, len(v))
		for i := range v {
			c[i] = copyVal(v[i])
		}
		return c
	}
	return v
}

func toString(v Value) string {
	var sb strings.Builder
	writeValue(&sb, v, 4)
	return sb.String()
}

func writeValue(sb *strings.Builder, v Value, depth int) {
	if depth == 0 {
		sb.WriteString("…")
		return
	}
	switch v := v.(type) {
	case nil:
		sb.WriteString("<nil>")
	case *Term:
		if v.isConst() && v.sort != SBool {
			fmt.Fprintf(sb, "%d", v.sval())
		} else {
			sb.WriteString(v.String())
		}
	case Str:
		sb.WriteString(v.String())
	case Struct:
		sb.WriteString("{")
		for i, f := range v {
			if i > 0 {
				sb.WriteString(" ")
			}
			writeValue(sb, f, depth-1)
		}
		sb.WriteString("}")
	case Array:
		sb.WriteString("[")
		for i, f := range v {
			if i > 0 {
				sb.WriteString(" ")
			}
			writeValue(sb, f, depth-1)
		}
		sb.WriteString("]")
	case Slice:
		sb.WriteString("[")
		for i, f := range v.a {
			if i > 0 {
				sb.WriteString(" ")
			}
			if i > 16 {
				sb.WriteString("…")
				break
			}
			writeValue(sb, f, depth-1)
		}
		sb.WriteString("]")
	case Iface:
		if v.t == nil {
			sb.WriteString("nil-iface")
		} else {
			fmt.Fprintf(sb, "(%s)", v.t)
			writeValue(sb, v.v, depth-1)
		}
	case *Value:
		if v == nil {
			sb.WriteString("nil-ptr")
		} else {
			sb.WriteString("&")
			writeValue(sb, *v, depth-1)
		}
	case Tuple:
		sb.WriteString("(")
		for i, f := range v {
			if i > 0 {
				sb.WriteString(", ")
			}
			writeValue(sb, f, depth-1)
		}
		sb.WriteString(")")
	case *ssa.Function:
		if v == nil {
			sb.WriteString("nil-func")
		} else {
			sb.WriteString(v.String())
		}
	case *Closure:
		sb.WriteString("closure:" + v.Fn.String())
	case *Map:
		if v == nil {
			sb.WriteString("nil-map")
		} else {
			fmt.Fprintf(sb, "map[%d]", len(v.entries))
		}
	case MaybeNil:
		sb.WriteString("maybe-nil(")
		writeValue(sb, v.v, depth-1)
		sb.WriteString(")")
	default:
		fmt.Fprintf(sb, "%v", v)
	}
}
