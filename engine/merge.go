package main

// If-conversion: when a branch on a symbolic condition opens a small side-effect-free
// region (both sides rejoin at the immediate post-dominator, or both sides return), the
// region is evaluated speculatively on both sides and the results are merged into
// ite-terms instead of forking the path. Anything impure met during speculation (a
// store, a decision, a possible panic, an un-modelled call) aborts the attempt and the
// engine falls back to forking, so this is purely an optimisation of the exploration.

import (
	"fmt"
	"go/types"
	"os"

	"golang.org/x/tools/go/ssa"
)

var debugMerge = os.Getenv("SYMGO_DEBUG_MERGE") != ""
var envNoMerge = os.Getenv("SYMGO_NOMERGE") != ""

type specAbort struct {
	why        string
	structural bool
}

type mergeOutcome int

const (
	mergeNone mergeOutcome = iota
	mergeJoin
	mergeReturn
)

type specLeaf struct {
	cond   *Term
	prev   *ssa.BasicBlock
	target *ssa.BasicBlock
	env    map[ssa.Value]Value
	ret    Value
	isRet  bool
	defs   []ssa.Value // SSA values (re)defined on this leaf's path, in this frame
}

type mergeInfo struct {
	ipdom   map[*ssa.BasicBlock]*ssa.BasicBlock
	headers map[*ssa.BasicBlock]bool // targets of back edges
}

func loopHeaders(fn *ssa.Function) map[*ssa.BasicBlock]bool {
	res := map[*ssa.BasicBlock]bool{}
	state := map[*ssa.BasicBlock]int{} // 1 = on stack, 2 = done
	var dfs func(b *ssa.BasicBlock)
	dfs = func(b *ssa.BasicBlock) {
		state[b] = 1
		for _, s := range b.Succs {
			switch state[s] {
			case 0:
				dfs(s)
			case 1:
				res[s] = true
			}
		}
		state[b] = 2
	}
	if len(fn.Blocks) > 0 {
		dfs(fn.Blocks[0])
	}
	return res
}

func (it *Interp) mergeInfoOf(fn *ssa.Function) *mergeInfo {
	mi := it.mergeCache[fn]
	if mi == nil {
		mi = &mergeInfo{ipdom: postDominators(fn), headers: loopHeaders(fn)}
		it.mergeCache[fn] = mi
	}
	return mi
}

func (it *Interp) specAbort(why string, structural bool) {
	panic(specAbort{why, structural})
}

// postDominators computes immediate post-dominators (nil = virtual exit).
func postDominators(fn *ssa.Function) map[*ssa.BasicBlock]*ssa.BasicBlock {
	n := len(fn.Blocks)
	// pdom sets as bitsets over block indices plus virtual exit (index n)
	type set []bool
	full := func() set {
		s := make(set, n+1)
		for i := range s {
			s[i] = true
		}
		return s
	}
	pd := make([]set, n+1)
	for i := 0; i < n; i++ {
		pd[i] = full()
	}
	pd[n] = make(set, n+1)
	pd[n][n] = true
	changed := true
	for changed {
		changed = false
		for i := n - 1; i >= 0; i-- {
			b := fn.Blocks[i]
			var succs []int
			for _, s := range b.Succs {
				succs = append(succs, s.Index)
			}
			if len(succs) == 0 {
				succs = []int{n}
			}
			ns := full()
			for _, s := range succs {
				for k := range ns {
					ns[k] = ns[k] && pd[s][k]
				}
			}
			ns[i] = true
			for k := range ns {
				if ns[k] != pd[i][k] {
					changed = true
				}
			}
			pd[i] = ns
		}
	}
	res := map[*ssa.BasicBlock]*ssa.BasicBlock{}
	for i := 0; i < n; i++ {
		// immediate post-dominator: the strict post-dominator that is post-dominated by all others
		var best = -1
		for k := 0; k <= n; k++ {
			if k == i || !pd[i][k] {
				continue
			}
			// k is a strict pdom of i; it is immediate if every other strict pdom of i pdoms k
			imm := true
			for m := 0; m <= n; m++ {
				if m == i || m == k || !pd[i][m] {
					continue
				}
				if !pd[k][m] {
					imm = false
					break
				}
			}
			if imm {
				best = k
				break
			}
		}
		if best >= 0 && best < n {
			res[fn.Blocks[i]] = fn.Blocks[best]
		}
	}
	return res
}

func (it *Interp) ipdomOf(b *ssa.BasicBlock) *ssa.BasicBlock {
	return it.mergeInfoOf(b.Parent()).ipdom[b]
}

// tryMerge attempts if-conversion at the If terminating fr.block.
func (it *Interp) tryMerge(fr *frame, ifi *ssa.If, cond *Term) (out mergeOutcome) {
	if it.noMerge[ifi] || it.disableMerge || envNoMerge {
		return mergeNone
	}
	B := fr.block
	J := it.ipdomOf(B)
	it.specDepth++
	savedFrame := it.curFrame
	savedBlock, savedPrev := fr.block, fr.prevBlock
	savedEnv := fr.env
	savedSteps := it.ex.steps
	defer func() {
		it.specDepth--
		if r := recover(); r != nil {
			sa, ok := r.(specAbort)
			if !ok {
				if _, isTP := r.(targetPanic); isTP {
					// a panic under a speculative condition: not mergeable
					sa, ok = specAbort{"panic in region", false}, true
				} else if _, isPE := r.(pathEnd); isPE && it.specDepth > 0 {
					sa, ok = specAbort{"path end in region", false}, true
				}
			}
			if !ok {
				panic(r)
			}
			if sa.structural {
				it.noMerge[ifi] = true
			}
			if debugMerge {
				fmt.Fprintf(os.Stderr, "merge abort at %s block %d: %s (structural=%v)\n", ifi.Parent(), ifi.Block().Index, sa.why, sa.structural)
			}
			it.curFrame = savedFrame
			fr.block, fr.prevBlock = savedBlock, savedPrev
			fr.env = savedEnv
			fr.panicking = false
			it.MergeAborts++
			out = mergeNone
			if it.specDepth > 0 {
				// an enclosing speculation cannot continue with a fork either
				panic(specAbort{"nested: " + sa.why, false})
			}
		}
	}()
	budget := &specBudget{leaves: 24, instrs: 600}
	var leaves []specLeaf
	for k := 0; k < 2; k++ {
		c := cond
		if k == 1 {
			c = mkNot(cond)
		}
		env := cloneEnv(savedEnv)
		it.specExplore(fr, B.Succs[k], B, env, c, J, budget, &leaves, map[*ssa.BasicBlock]bool{B: true}, nil)
	}
	fr.env = savedEnv
	fr.block, fr.prevBlock = savedBlock, savedPrev
	it.curFrame = savedFrame
	_ = savedSteps
	if len(leaves) == 0 {
		it.specAbort("no leaves", true)
	}
	// group the leaves by exit (a target block, or "return")
	type group struct {
		target *ssa.BasicBlock
		leaves []specLeaf
	}
	var groups []*group
	for _, l := range leaves {
		var g *group
		for _, x := range groups {
			if (l.isRet && x.target == nil) || (!l.isRet && x.target == l.target) {
				g = x
				break
			}
		}
		if g == nil {
			g = &group{}
			if !l.isRet {
				g.target = l.target
			}
			groups = append(groups, g)
		}
		g.leaves = append(g.leaves, l)
	}
	if len(groups) > 1 && it.specDepth > 1 {
		it.specAbort("multi-exit region inside a speculation", false)
	}
	if len(groups) >= len(leaves) && len(groups) > 1 {
		// nothing gained over plain forking
		it.specAbort("no sharing between exits", true)
	}
	// region blocks (for the outside-use check)
	type prepared struct {
		env    map[ssa.Value]Value
		result Value
		prev   *ssa.BasicBlock
		cond   *Term
	}
	preps := make([]prepared, len(groups))
	for gi, g := range groups {
		var conds []*Term
		for _, l := range g.leaves {
			conds = append(conds, l.cond)
		}
		pr := prepared{cond: mkOr(conds...)}
		if g.target == nil {
			var vals []Value
			for _, l := range g.leaves {
				vals = append(vals, l.ret)
			}
			if vals[0] == nil {
				pr.result = nil
			} else if _, isTuple := vals[0].(Tuple); isTuple {
				n := len(vals[0].(Tuple))
				res := make(Tuple, n)
				for i := 0; i < n; i++ {
					var col []Value
					for _, v := range vals {
						col = append(col, v.(Tuple)[i])
					}
					res[i] = it.mergeValues(conds, col)
				}
				pr.result = res
			} else {
				pr.result = it.mergeValues(conds, vals)
			}
			preps[gi] = pr
			continue
		}
		T := g.target
		newEnv := cloneEnv(savedEnv)
		// values (re)defined inside the region on every leaf of the group
		for _, k := range g.leaves[0].defs {
			var col []Value
			all := true
			for _, l := range g.leaves {
				found := false
				for _, d := range l.defs {
					if d == k {
						found = true
						break
					}
				}
				lv, ok := l.env[k]
				if !found || !ok {
					all = false
					break
				}
				col = append(col, lv)
			}
			if !all {
				// not defined on every path to this exit: by SSA dominance it cannot be
				// used from here without being redefined first
				delete(newEnv, k)
				continue
			}
			same := true
			for _, c := range col[1:] {
				if !identicalValue(col[0], c) {
					same = false
				}
			}
			if same {
				newEnv[k] = col[0]
			} else if usedOutside(k, leaves) {
				newEnv[k] = it.mergeValues(conds, col)
			} else {
				delete(newEnv, k)
			}
		}
		for _, ins := range T.Instrs {
			phi, ok := ins.(*ssa.Phi)
			if !ok {
				break
			}
			var vals []Value
			for _, l := range g.leaves {
				idx := -1
				for i, p := range T.Preds {
					if p == l.prev {
						idx = i
						break
					}
				}
				if idx < 0 {
					it.specAbort("leaf predecessor is not a predecessor of the exit", true)
				}
				vals = append(vals, getFrom(fr, l.env, phi.Edges[idx]))
			}
			newEnv[phi] = it.mergeValues(conds, vals)
		}
		pr.env = newEnv
		pr.prev = g.leaves[0].prev
		preps[gi] = pr
	}
	// commit: one decision among the exits
	gi := 0
	if len(groups) > 1 {
		conds := make([]*Term, len(groups))
		for i := range groups {
			conds[i] = preps[i].cond
		}
		it.specDepth--
		gi = it.ex.choose("merged-if", conds, true)
		it.specDepth++
	}
	it.Merges++
	if debugMerge {
		fmt.Fprintf(os.Stderr, "merge ok at %s block %d: leaves=%d groups=%d chosen=%d\n", ifi.Parent(), ifi.Block().Index, len(leaves), len(groups), gi)
	}
	g := groups[gi]
	if g.target == nil {
		fr.result = preps[gi].result
		fr.block = nil
		return mergeReturn
	}
	fr.env = preps[gi].env
	fr.prevBlock, fr.block = preps[gi].prev, g.target
	fr.skipPhis = true
	return mergeJoin
}

// usedOutside reports whether v has a referrer outside the blocks that define the
// region's values (conservatively: outside v's own block).
func usedOutside(v ssa.Value, leaves []specLeaf) bool {
	refs := v.Referrers()
	if refs == nil {
		return false
	}
	ins, ok := v.(ssa.Instruction)
	if !ok {
		return false
	}
	for _, r := range *refs {
		if r.Block() != ins.Block() {
			return true
		}
	}
	return false
}

type specBudget struct {
	leaves int
	instrs int
}

func cloneEnv(env map[ssa.Value]Value) map[ssa.Value]Value {
	c := make(map[ssa.Value]Value, len(env)+8)
	for k, v := range env {
		c[k] = v
	}
	return c
}

func getFrom(fr *frame, env map[ssa.Value]Value, v ssa.Value) Value {
	saved := fr.env
	fr.env = env
	defer func() { fr.env = saved }()
	return fr.get(v)
}

func identicalValue(a, b Value) bool {
	switch x := a.(type) {
	case *Term:
		y, ok := b.(*Term)
		return ok && sameTerm(x, y)
	case *Value:
		y, ok := b.(*Value)
		return ok && x == y
	case Str:
		y, ok := b.(Str)
		if !ok {
			return false
		}
		if x.isConcrete() && y.isConcrete() {
			return x.s == y.s
		}
		return false
	case *Map:
		y, ok := b.(*Map)
		return ok && x == y
	case *ssa.Function:
		y, ok := b.(*ssa.Function)
		return ok && x == y
	case *Closure:
		y, ok := b.(*Closure)
		return ok && x == y
	case Iface:
		y, ok := b.(Iface)
		if !ok {
			return false
		}
		if x.t == nil || y.t == nil {
			return x.t == nil && y.t == nil
		}
		return types.Identical(x.t, y.t) && identicalValue(x.v, y.v)
	}
	return false
}

// mergeValues builds ite(c0, v0, ite(c1, v1, ... vn)).
func (it *Interp) mergeValues(conds []*Term, vals []Value) Value {
	allSame := true
	for _, v := range vals[1:] {
		if !identicalValue(vals[0], v) {
			allSame = false
			break
		}
	}
	if allSame {
		return vals[0]
	}
	switch v0 := vals[0].(type) {
	case *Term:
		res := vals[len(vals)-1].(*Term)
		for i := len(vals) - 2; i >= 0; i-- {
			t, ok := vals[i].(*Term)
			if !ok || t.sort != res.sort {
				it.specAbort("merge of differently sorted scalars", false)
			}
			res = mkIte(conds[i], t, res)
		}
		return res
	case Str:
		n := -1
		for _, v := range vals {
			s, ok := v.(Str)
			if !ok || s.lazy != nil || s.atom != nil {
				it.specAbort("merge of lazy/atom strings", false)
			}
			if n >= 0 && s.Len() != n {
				it.specAbort("merge of strings of different length", false)
			}
			n = s.Len()
		}
		_ = v0
		out := make([]*Term, n)
		for k := 0; k < n; k++ {
			res := vals[len(vals)-1].(Str).byteAt(k)
			for i := len(vals) - 2; i >= 0; i-- {
				res = mkIte(conds[i], vals[i].(Str).byteAt(k), res)
			}
			out[k] = res
		}
		return strFromBytes(out)
	case Struct:
		res := make(Struct, len(v0))
		for f := range v0 {
			var col []Value
			for _, v := range vals {
				s, ok := v.(Struct)
				if !ok || len(s) != len(v0) {
					it.specAbort("merge of different structs", false)
				}
				col = append(col, s[f])
			}
			res[f] = it.mergeValues(conds, col)
		}
		return res
	case Iface:
		// same dynamic type on all leaves: merge payloads
		var col []Value
		for _, v := range vals {
			i, ok := v.(Iface)
			if !ok || (i.t == nil) != (v0.t == nil) || (i.t != nil && !types.Identical(i.t, v0.t)) {
				it.specAbort("merge of interfaces with different dynamic types", false)
			}
			col = append(col, i.v)
		}
		if v0.t == nil {
			return v0
		}
		return Iface{t: v0.t, v: it.mergeValues(conds, col)}
	}
	it.specAbort("unmergeable values", false)
	return nil
}

// specExplore runs blocks speculatively from b until the join J or a return.
func (it *Interp) specExplore(fr *frame, b, prev *ssa.BasicBlock, env map[ssa.Value]Value, cond *Term, J *ssa.BasicBlock, budget *specBudget, leaves *[]specLeaf, onPath map[*ssa.BasicBlock]bool, defs []ssa.Value) {
	for {
		if (J != nil && b == J) || onPath[b] || it.mergeInfoOf(b.Parent()).headers[b] || !it.condPure(b) {
			if budget.leaves--; budget.leaves < 0 {
				it.specAbort("too many leaves", true)
			}
			*leaves = append(*leaves, specLeaf{cond: cond, prev: prev, target: b, env: env, defs: defs})
			return
		}
		onPath[b] = true
		defer delete(onPath, b)
		fr.env = env
		fr.block, fr.prevBlock = b, prev
		nonPhis := executePhis(fr)
		for _, ins := range b.Instrs {
			if phi, ok := ins.(*ssa.Phi); ok {
				defs = append(defs, phi)
			} else {
				break
			}
		}
		for _, instr := range nonPhis {
			if v, ok := instr.(ssa.Value); ok {
				defs = append(defs, v)
			}
			if budget.instrs--; budget.instrs < 0 {
				it.specAbort("region too large", true)
			}
			switch ins := instr.(type) {
			case *ssa.If:
				c := fr.get(ins.Cond).(*Term)
				if !c.isConst() {
					switch it.ex.evalBool(c, 8) {
					case 1:
						c = tTrue
					case 0:
						c = tFalse
					}
				}
				if c.isConst() {
					k := 1
					if c.cv != 0 {
						k = 0
					}
					prev, b = b, b.Succs[k]
					goto next
				}
				for k := 0; k < 2; k++ {
					ck := c
					if k == 1 {
						ck = mkNot(c)
					}
					it.specExplore(fr, b.Succs[k], b, cloneEnv(env), mkAnd(cond, ck), J, budget, leaves, onPath, append([]ssa.Value{}, defs...))
				}
				return
			case *ssa.Jump:
				prev, b = b, b.Succs[0]
				goto next
			case *ssa.Return:
				if budget.leaves--; budget.leaves < 0 {
					it.specAbort("too many leaves", true)
				}
				var res Value
				switch len(ins.Results) {
				case 0:
				case 1:
					res = fr.get(ins.Results[0])
				default:
					var t Tuple
					for _, r := range ins.Results {
						t = append(t, fr.get(r))
					}
					res = t
				}
				*leaves = append(*leaves, specLeaf{cond: cond, ret: res, isRet: true, env: env, defs: defs})
				return
			case *ssa.Store, *ssa.MapUpdate, *ssa.Send, *ssa.Go, *ssa.Defer, *ssa.RunDefers, *ssa.Panic, *ssa.Select, *ssa.Alloc, *ssa.MakeChan, *ssa.Next, *ssa.Range:
				it.specAbort("impure instruction", true)
			default:
				if visitInstr(fr, instr) != kNext {
					it.specAbort("unexpected control transfer", true)
				}
				it.curFrame = fr
			}
		}
		it.specAbort("block without terminator", true)
	next:
	}
}

// condPure: statically, may this block be evaluated speculatively? (Dynamic impurity
// — a store inside a callee, a decision — still aborts the attempt.)
func (it *Interp) condPure(b *ssa.BasicBlock) bool {
	if v, ok := it.condPureCache[b]; ok {
		return v
	}
	pure := true
	for _, instr := range b.Instrs {
		switch ins := instr.(type) {
		case *ssa.Phi, *ssa.BinOp, *ssa.Convert, *ssa.ChangeType, *ssa.ChangeInterface, *ssa.Extract, *ssa.Field, *ssa.FieldAddr,
			*ssa.Index, *ssa.IndexAddr, *ssa.Lookup, *ssa.Slice, *ssa.DebugRef, *ssa.If, *ssa.Jump, *ssa.Return, *ssa.MakeInterface, *ssa.TypeAssert:
		case *ssa.UnOp:
			if ins.Op.String() == "<-" {
				pure = false
			}
		case *ssa.Call:
			switch callee := ins.Call.Value.(type) {
			case *ssa.Builtin:
				switch callee.Name() {
				case "len", "cap", "min", "max":
				default:
					pure = false
				}
			case *ssa.Function:
				if !it.smallPureCallee(callee, 2) {
					pure = false
				}
			default:
				pure = false
			}
		default:
			pure = false
		}
		if !pure {
			break
		}
	}
	it.condPureCache[b] = pure
	return pure
}

// smallPureCallee: a static callee all of whose blocks are condPure (bounded depth).
func (it *Interp) smallPureCallee(fn *ssa.Function, depth int) bool {
	if v, ok := it.pureFnCache[fn]; ok {
		return v
	}
	if depth == 0 || fn.Blocks == nil || len(fn.Blocks) > 24 {
		return false
	}
	it.pureFnCache[fn] = false // recursion guard
	ok := true
	for _, b := range fn.Blocks {
		for _, instr := range b.Instrs {
			switch ins := instr.(type) {
			case *ssa.Phi, *ssa.BinOp, *ssa.Convert, *ssa.ChangeType, *ssa.Extract, *ssa.Field, *ssa.Index, *ssa.Lookup, *ssa.Slice,
				*ssa.DebugRef, *ssa.If, *ssa.Jump, *ssa.Return, *ssa.UnOp:
				if u, isU := ins.(*ssa.UnOp); isU && u.Op.String() == "<-" {
					ok = false
				}
			case *ssa.Call:
				switch callee := ins.Call.Value.(type) {
				case *ssa.Builtin:
					if n := callee.Name(); n != "len" && n != "cap" && n != "min" && n != "max" {
						ok = false
					}
				case *ssa.Function:
					if !it.smallPureCallee(callee, depth-1) {
						ok = false
					}
				default:
					ok = false
				}
			default:
				ok = false
			}
		}
	}
	it.pureFnCache[fn] = ok
	return ok
}
