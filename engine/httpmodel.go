package main

// net/http: only the client entry point is modelled; everything else the repository
// touches (Header, Request construction, url parsing) is interpreted from source.
// (*http.Client).Do(req) = Transport.RoundTrip(req): no redirects, cookies, timeouts.

import (
	"go/types"

	"golang.org/x/tools/go/ssa"
)

func init() {
	reg("(*net/http.Client).Do", func(it *Interp, fr *frame, fn *ssa.Function, args []Value) Value {
		it.mstate.assumptions["(*http.Client).Do is modelled as Transport.RoundTrip(req): no redirects, cookies, timeouts or connection handling"] = true
		cp := it.derefPtr(fr, args[0])
		st := (*cp).(Struct)
		tr := it.resolveNil(fr, st[0]).(Iface)
		if tr.t == nil {
			panic(unsupported("http.Client with nil Transport (http.DefaultTransport is outside the model)"))
		}
		res, ok := it.callMethod(fr, tr, "RoundTrip", args[1])
		if !ok {
			panic(unsupported("Transport without RoundTrip"))
		}
		tup := res.(Tuple)
		resp := it.resolveNil(fr, tup[0])
		errV := it.resolveNil(fr, tup[1]).(Iface)
		if errV.t != nil {
			// wrapped like net/http does: *url.Error{Op, URL, Err}
			ut := typeOfNamed(it.prog, "net/url", "Error")
			reqP := it.derefPtr(fr, args[1])
			method := (*reqP).(Struct)[0]
			var cell Value = Struct{method, mkStr("(url)"), errV}
			return Tuple{(*Value)(nil), Iface{t: types.NewPointer(ut), v: &cell}}
		}
		if p, isPtr := resp.(*Value); isPtr && p == nil {
			return Tuple{(*Value)(nil), it.errorString("http: RoundTripper implementation returned a nil *Response with a nil error")}
		}
		return Tuple{resp, Iface{}}
	})
}
