package main

// symgo check <PROPERTY> [--tier quick|thorough]
//
// Runs every harness registered for the property in /verif/harness/index.json (one
// engine process per harness, in parallel), replays each counterexample natively
// against the real build, prints VIOLATION / KNOWN-FINDING lines, writes the evidence
// file and exits 0 (held), 1 (violation reproduced) or 2 (inconclusive / incomplete /
// spurious).

import (
	"bufio"
	"encoding/json"
	"flag"
	"fmt"
	"io"
	"os"
	"os/exec"
	"path/filepath"
	"runtime"
	"sort"
	"strconv"
	"strings"
	"sync"
	"time"
)

type tierCfg struct {
	Params   []string `json:"params"`   // one run per entry ("" = defaults)
	Timeout  int      `json:"timeout"`  // seconds per run
	MaxPaths int      `json:"maxpaths"` // per run
	MaxSteps int      `json:"maxsteps"`
	QTimeout int      `json:"qtimeout"` // ms
	Solver   string   `json:"solver"`   // back end for this tier's runs ("" = z3 4.8.12)
}

type harnessGroup struct {
	Pkg       string   `json:"pkg"`
	Harnesses []string `json:"harnesses"`
	Quick     tierCfg  `json:"quick"`
	Thorough  tierCfg  `json:"thorough"`
	Bounds    string   `json:"bounds"`
	Out       string   `json:"outside"`
	NonTerm   bool     `json:"nontermination_is_violation"`
	RaceBuild bool     `json:"race_build"` // native replays run under the Go race detector
}

type propIndex struct {
	Groups      []harnessGroup `json:"groups"`
	Assumptions []string       `json:"assumptions"`
}

type oneRun struct {
	group   *harnessGroup
	harness string
	params  string
	cfg     tierCfg
	res     *runResult
	exit    int
	stderr  string
	resFile string
	solver  string // "" = default back end
	cross   bool   // a cross-check run on the second solver
}

func verifRoot() string {
	if r := os.Getenv("VERIF_ROOT"); r != "" {
		return r
	}
	exe, err := os.Executable()
	if err == nil {
		d := filepath.Dir(filepath.Dir(exe))
		if _, err := os.Stat(filepath.Join(d, "harness", "index.json")); err == nil {
			return d
		}
	}
	return "/verif"
}

func cmdCheck(args []string) int {
	fs := flag.NewFlagSet("check", flag.ExitOnError)
	tier := fs.String("tier", "", "quick | thorough")
	repo := fs.String("repo", "/repo", "repository root")
	only := fs.String("only", "", "run only harnesses containing this substring")
	jobs := fs.Int("j", 0, "parallel engine processes")
	keep := fs.Bool("keep", false, "keep per-run result files")
	crossSolver := fs.String("cross", "", "also run the quick-tier job set on this solver back end (z3-new|cvc5) and compare verdicts")
	replayFile := fs.String("replay", "", "replay one recorded counterexample natively against the current tree")
	var prop string
	if len(args) > 0 && !strings.HasPrefix(args[0], "-") {
		prop = args[0]
		args = args[1:]
	}
	fs.Parse(args)
	if prop == "" && fs.NArg() > 0 {
		prop = fs.Arg(0)
	}
	if *tier == "" {
		*tier = os.Getenv("VERIF_TIER")
	}
	if *tier == "" {
		*tier = "quick"
	}
	seed, _ := strconv.Atoi(os.Getenv("VERIF_SEED"))
	root := verifRoot()
	start := time.Now()

	var index map[string]propIndex
	data, err := os.ReadFile(filepath.Join(root, "harness", "index.json"))
	if err != nil {
		fmt.Fprintln(os.Stderr, "index:", err)
		return 2
	}
	if err := json.Unmarshal(data, &index); err != nil {
		fmt.Fprintln(os.Stderr, "index:", err)
		return 2
	}
	pi, ok := index[prop]
	if !ok {
		fmt.Fprintln(os.Stderr, "no harnesses registered for", prop)
		return 2
	}
	outDir := filepath.Join(root, "out", prop+"-"+*tier)
	os.RemoveAll(outDir)
	os.MkdirAll(outDir, 0o755)
	os.MkdirAll(filepath.Join(root, "evidence"), 0o755)
	os.MkdirAll(filepath.Join(root, "replay"), 0o755)

	var runs []*oneRun
	for gi := range pi.Groups {
		g := &pi.Groups[gi]
		cfg := g.Quick
		if *tier == "thorough" && (len(g.Thorough.Params) > 0 || g.Thorough.Timeout > 0) {
			cfg = g.Thorough
			if len(cfg.Params) == 0 {
				cfg.Params = g.Quick.Params
			}
		}
		if len(cfg.Params) == 0 {
			cfg.Params = []string{""}
		}
		for _, h := range g.Harnesses {
			if *only != "" && !strings.Contains(h, *only) {
				continue
			}
			for _, p := range cfg.Params {
				runs = append(runs, &oneRun{group: g, harness: h, params: p, cfg: cfg, solver: cfg.Solver})
			}
		}
	}
	if *replayFile != "" {
		rd := filepath.Join(root, "out", prop+"-replay")
		os.RemoveAll(rd)
		os.MkdirAll(rd, 0o755)
		return replayOne(*repo, root, rd, prop, pi, *replayFile)
	}
	if *crossSolver != "" {
		for gi := range pi.Groups {
			g := &pi.Groups[gi]
			cfg := g.Quick
			if len(cfg.Params) == 0 {
				cfg.Params = []string{""}
			}
			for _, h := range g.Harnesses {
				if *only != "" && !strings.Contains(h, *only) {
					continue
				}
				for _, p := range cfg.Params {
					runs = append(runs, &oneRun{group: g, harness: h, params: p, cfg: cfg, solver: *crossSolver, cross: true})
				}
			}
		}
	}
	if len(runs) == 0 {
		fmt.Fprintln(os.Stderr, "nothing to run")
		return 2
	}
	nj := *jobs
	if nj <= 0 {
		nj = runtime.NumCPU()
		if nj > 16 {
			nj = 16
		}
	}
	exe, _ := os.Executable()
	byPkg := map[string][]*oneRun{}
	var pkgOrder []string
	for i, r := range runs {
		r.resFile = filepath.Join(outDir, fmt.Sprintf("%03d-%s.json", i, r.harness))
		if _, ok := byPkg[r.group.Pkg]; !ok {
			pkgOrder = append(pkgOrder, r.group.Pkg)
		}
		byPkg[r.group.Pkg] = append(byPkg[r.group.Pkg], r)
	}
	var wg sync.WaitGroup
	for _, pkg := range pkgOrder {
		prs := byPkg[pkg]
		// longest first
		sort.SliceStable(prs, func(i, j int) bool { return prs[i].cfg.Timeout > prs[j].cfg.Timeout })
		// light jobs (short budgets) are packed several per worker so that the ~3 s
		// package load is amortised; heavy ones get a worker each
		heavy, light := 0, 0
		for _, r := range prs {
			if r.cfg.Timeout > 90 {
				heavy++
			} else {
				light++
			}
		}
		w := heavy + (light+5)/6
		if lim := nj * len(prs) / len(runs); w > lim {
			w = lim
		}
		if w < 1 {
			w = 1
		}
		if w > len(prs) {
			w = len(prs)
		}
		jobs := make(chan *oneRun, len(prs))
		for _, r := range prs {
			jobs <- r
		}
		close(jobs)
		for k := 0; k < w; k++ {
			wg.Add(1)
			go func(pkg string) {
				defer wg.Done()
				runWorker(exe, *repo, root, prop, pkg, jobs)
			}(pkg)
		}
	}
	wg.Wait()
	for _, r := range runs {
		if data, err := os.ReadFile(r.resFile); err == nil {
			var rr runResult
			if json.Unmarshal(data, &rr) == nil {
				r.res = &rr
			}
		}
	}

	// ---- collect
	type replayJob struct {
		run     *oneRun
		v       *violation
		file    string
		out     string
		repro   bool
		sample  bool     // a completed (non-violating) path: must also pass natively
		wantObs []string // engine-side verifObserve values of that path
		gotObs  []string
	}
	var jobsR []*replayJob
	bad := 0
	for _, r := range runs {
		if r.res == nil {
			bad++
			fmt.Fprintf(os.Stderr, "[%s %s] engine failed (exit %d):\n%s\n", r.harness, r.params, r.exit, tail(r.stderr, 30))
			continue
		}
		if r.res.Status == "inconclusive" || r.res.Status == "incomplete" {
			bad++
			fmt.Fprintf(os.Stderr, "[%s %s] %s: %v %s\n", r.harness, r.params, r.res.Status, r.res.Inconclusive, r.res.Incomplete)
		}
		for vi := range r.res.Violations {
			v := &r.res.Violations[vi]
			name := fmt.Sprintf("%s-%s-%s-%s", prop, r.harness, sanitize(v.Label), sanitize(v.Kind))
			if v.Known != "" {
				name += "-known-" + sanitize(v.Known)
			}
			if r.params != "" {
				name += "-" + sanitize(r.params)
			}
			if v.Alt > 0 {
				name += fmt.Sprintf("-alt%d", v.Alt)
			}
			jobsR = append(jobsR, &replayJob{run: r, v: v, file: filepath.Join(root, "replay", name+".json")})
		}
	}
	// sampled completed paths are replayed too (translator validation): the native run
	// must finish without assertion failure or panic and observe the same values
	for _, r := range runs {
		if r.res == nil {
			continue
		}
		for si, smp := range r.res.Samples {
			if si >= maxSamplesPerRun {
				break
			}
			vec := smp.Vector
			obs := smp.Observed
			name := fmt.Sprintf("%s-%s-sample%d", prop, r.harness, si)
			if r.params != "" {
				name += "-" + sanitize(r.params)
			}
			f := filepath.Join(outDir, name+".json")
			b, _ := json.Marshal(map[string]interface{}{"vector": vec})
			os.WriteFile(f, b, 0o644)
			jobsR = append(jobsR, &replayJob{run: r, file: f, sample: true, wantObs: obs})
		}
	}
	// ---- native replay of every counterexample
	replayed := 0
	if len(jobsR) > 0 {
		ovFiles := map[string]string{}
		var err error
		for _, j := range jobsR {
			if _, ok := ovFiles[j.run.group.Pkg]; !ok {
				ovFiles[j.run.group.Pkg], err = writeReplayOverlay(*repo, root, outDir, j.run.group.Pkg)
				if err != nil {
					break
				}
			}
		}
		if err != nil {
			fmt.Fprintln(os.Stderr, "replay overlay:", err)
			bad++
		} else {
			var wg2 sync.WaitGroup
			sem2 := make(chan struct{}, 6)
			for _, j := range jobsR {
				if !j.sample {
					doc := map[string]interface{}{"property": prop, "harness": j.run.harness, "package": j.run.group.Pkg, "params": j.run.params,
						"label": j.v.Label, "kind": j.v.Kind, "detail": j.v.Detail, "vector": j.v.Vector, "stack": j.v.Stack}
					b, _ := json.MarshalIndent(doc, "", " ")
					os.WriteFile(j.file, b, 0o644)
				}
				wg2.Add(1)
				go func(j *replayJob) {
					defer wg2.Done()
					sem2 <- struct{}{}
					defer func() { <-sem2 }()
					j.out, j.gotObs = nativeReplay(*repo, ovFiles[j.run.group.Pkg], j.run.group.Pkg, j.run.harness, j.run.params, j.file, j.run.group.RaceBuild && (j.sample || j.v.Kind == "race"), j.sample)
					if !j.sample {
						j.repro = reproduces(j.out, j.v)
					}
				}(j)
			}
			wg2.Wait()
			replayed = len(jobsR)
		}
	}

	exit := 0
	violations := 0
	knownHit := map[string]bool{}
	// several alternative counterexamples may exist per (run, label): the label counts as
	// reproduced if any of them replays natively
	groupKey := func(j *replayJob) string {
		return fmt.Sprintf("%p/%s/%s/%s", j.run, j.v.Kind, j.v.Label, j.v.Known)
	}
	anyRepro := map[string]bool{}
	for _, j := range jobsR {
		if !j.sample && j.repro {
			anyRepro[groupKey(j)] = true
		}
	}
	for _, j := range jobsR {
		if j.sample {
			okObs := len(j.wantObs) == len(j.gotObs)
			if okObs {
				for i := range j.wantObs {
					if j.wantObs[i] != j.gotObs[i] && !strings.HasSuffix(j.wantObs[i], "=?") {
						okObs = false
					}
				}
			}
			if j.out != "ok" || !okObs {
				fmt.Fprintf(os.Stderr, "SELFCHECK MISMATCH: %s %s: a path the engine completed without violation gives natively %q; observed engine=%v native=%v (vector %s)\n", j.run.harness, j.run.params, j.out, j.wantObs, j.gotObs, j.file)
				bad++
				// keep the vector for inspection
				if data, err := os.ReadFile(j.file); err == nil {
					os.WriteFile(filepath.Join(root, "replay", filepath.Base(j.file)), data, 0o644)
				}
			}
			continue
		}
		if j.v.Known != "" {
			if j.repro {
				knownHit[j.v.Known] = true
			} else if anyRepro[groupKey(j)] {
				os.Remove(j.file)
			} else {
				fmt.Fprintf(os.Stderr, "[%s] listed finding %s: solver model did not reproduce natively (%s)\n", j.run.harness, j.v.Known, j.out)
				bad++
			}
			continue
		}
		if j.repro {
			violations++
			fmt.Printf("VIOLATION property=%s replay=%s\n", prop, j.file)
			fmt.Fprintf(os.Stderr, "  %s [%s] %s -> native: %s\n", j.run.harness, j.v.Kind, j.v.Detail, j.out)
			exit = 1
		} else if anyRepro[groupKey(j)] {
			fmt.Fprintf(os.Stderr, "  note: %s [%s/%s] alternative counterexample %d did not replay natively (%s); another one for this label did\n", j.run.harness, j.v.Kind, j.v.Label, j.v.Alt, j.out)
			os.Remove(j.file)
		} else {
			fmt.Fprintf(os.Stderr, "SPURIOUS: %s [%s/%s] solver model did not reproduce natively: %s (vector %s)\n", j.run.harness, j.v.Kind, j.v.Label, j.out, j.file)
			bad++
		}
	}
	for _, k := range loadKnown(filepath.Join(root, "known_findings.jsonl"), prop, "") {
		_ = k
	}
	allKnown := loadKnownAll(filepath.Join(root, "known_findings.jsonl"), prop)
	for _, k := range allKnown {
		if k.Status == "known" && knownHit[k.ID] {
			fmt.Printf("KNOWN-FINDING: property=%s %s\n", prop, k.What)
		}
	}
	// ---- second solver: same verdict per (harness, params) where both back ends ran it
	crossInfo := map[string]interface{}{}
	if *crossSolver != "" {
		sig := func(r *oneRun) string {
			if r.res == nil {
				return "failed"
			}
			var labels []string
			for _, v := range r.res.Violations {
				labels = append(labels, v.Kind+"/"+v.Label+"/"+v.Known)
			}
			sort.Strings(labels)
			return r.res.Status + " " + strings.Join(labels, ",")
		}
		main := map[string]*oneRun{}
		for _, r := range runs {
			if !r.cross {
				main[r.harness+"|"+r.params+"|"+fmt.Sprint(r.cfg.Timeout, r.cfg.MaxPaths)] = r
			}
		}
		nCross, compared, agreed := 0, 0, 0
		for _, r := range runs {
			if !r.cross {
				continue
			}
			nCross++
			if m := main[r.harness+"|"+r.params+"|"+fmt.Sprint(r.cfg.Timeout, r.cfg.MaxPaths)]; m != nil {
				compared++
				if sig(m) == sig(r) {
					agreed++
				} else {
					fmt.Fprintf(os.Stderr, "SOLVER DISAGREEMENT: %s %s: z3 says %q, %s says %q\n", r.harness, r.params, sig(m), r.solver, sig(r))
					bad++
				}
			}
		}
		crossInfo = map[string]interface{}{"solver": *crossSolver, "runs": nCross, "compared_with_primary": compared, "agreed": agreed,
			"note": "the quick-tier job set re-run with a second SMT back end; every such run must itself be clean, and where the primary back end ran the same job the verdicts (status and violated labels) must be equal"}
	}
	if exit == 0 && bad > 0 {
		exit = 2
	}

	// ---- evidence
	ev := buildEvidence(prop, *tier, seed, runs, pi, replayed, violations, knownHit, time.Since(start).Seconds(), *crossSolver)
	if len(crossInfo) > 0 {
		ev["cross_check"] = crossInfo
	}
	b, _ := json.MarshalIndent(ev, "", " ")
	os.WriteFile(filepath.Join(root, "evidence", prop+".json"), b, 0o644)
	if !*keep {
		// keep the directory small: results are summarised in the evidence
		os.RemoveAll(outDir)
	}
	status := map[int]string{0: "HELD", 1: "VIOLATION", 2: "INCONCLUSIVE"}[exit]
	fmt.Fprintf(os.Stderr, "%s %s tier=%s runs=%d wall=%.1fs\n", prop, status, *tier, len(runs), time.Since(start).Seconds())
	return exit
}

func tail(s string, n int) string {
	lines := strings.Split(strings.TrimRight(s, "\n"), "\n")
	if len(lines) > n {
		lines = lines[len(lines)-n:]
	}
	return strings.Join(lines, "\n")
}

func loadKnownAll(path, property string) []knownFinding {
	data, err := os.ReadFile(path)
	if err != nil {
		return nil
	}
	var out []knownFinding
	for _, line := range strings.Split(string(data), "\n") {
		line = strings.TrimSpace(line)
		if line == "" || strings.HasPrefix(line, "#") {
			continue
		}
		var k knownFinding
		if json.Unmarshal([]byte(line), &k) == nil && k.Property == property {
			out = append(out, k)
		}
	}
	return out
}

// writeReplayOverlay materialises the generated API/test files under outDir and writes
// the go build overlay that injects all harness files into /repo (nothing is written
// to /repo).
// One overlay per package: only that package's harness files are injected, because a
// harness may import other repository packages (e.g. ociserver's harness imports
// ociclient) and injecting it while building their tests would create import cycles.
func writeReplayOverlay(repo, root, outDir, pkg string) (string, error) {
	hdir := filepath.Join(root, "harness")
	all, _, err := overlayFor(repo, hdir, true)
	if err != nil {
		return "", err
	}
	pkgDir := filepath.Join(repo, "ociregistry", pkg) + string(filepath.Separator)
	if pkg == "" || pkg == "." {
		pkgDir = filepath.Join(repo, "ociregistry") + string(filepath.Separator)
	}
	ov := map[string][]byte{}
	for target, content := range all {
		if filepath.Dir(target)+string(filepath.Separator) == pkgDir {
			ov[target] = content
		}
	}
	testTmpl, err := os.ReadFile(filepath.Join(hdir, "replay_test.go.tmpl"))
	if err != nil {
		return "", err
	}
	gen := filepath.Join(outDir, "gen-"+sanitize(pkg))
	os.MkdirAll(gen, 0o755)
	repl := map[string]string{}
	n := 0
	add := func(target string, content []byte) {
		n++
		f := filepath.Join(gen, fmt.Sprintf("f%03d_%s", n, filepath.Base(target)))
		os.WriteFile(f, content, 0o644)
		repl[target] = f
	}
	for target, content := range ov {
		add(target, content)
		if strings.HasSuffix(target, "zz_verif_api.go") {
			pkg := packageClause(content)
			t := strings.TrimSuffix(target, "zz_verif_api.go") + "zz_verif_replay_test.go"
			add(t, []byte(strings.Replace(string(testTmpl), "package PKG", "package "+pkg, 1)))
		}
	}
	// Schedule-controlled replay: in the replay build (only) every sync.Mutex of the
	// repository's packages becomes verifsched.Mutex (package injected below), which
	// enforces the lock acquisition order recorded in a counterexample and is a plain
	// mutex otherwise; the target package's reads of the wall clock become reads of the
	// harness clock (the real clock unless the harness called verifManualClock). The
	// rewritten copies are regenerated from the current source on every run.
	const schedPkg = "cuelabs.dev/go/oci/ociregistry/internal/verifsched"
	schedSrc, err := os.ReadFile(filepath.Join(hdir, "verifsched.go.tmpl"))
	if err != nil {
		return "", err
	}
	usesSched := false
	modRoot := filepath.Join(repo, "ociregistry")
	filepath.Walk(modRoot, func(p string, info os.FileInfo, err error) error {
		if err != nil || info.IsDir() {
			if err == nil && info.IsDir() && p != modRoot {
				if _, statErr := os.Stat(filepath.Join(p, "go.mod")); statErr == nil {
					return filepath.SkipDir // nested module
				}
			}
			return nil
		}
		name := info.Name()
		if !strings.HasSuffix(name, ".go") || strings.HasSuffix(name, "_test.go") {
			return nil
		}
		if _, dup := ov[p]; dup {
			return nil
		}
		src, err := os.ReadFile(p)
		if err != nil {
			return nil
		}
		out := string(src)
		inTarget := filepath.Dir(p)+string(filepath.Separator) == pkgDir
		if strings.Contains(out, "sync.Mutex") {
			out = strings.ReplaceAll(out, "sync.Mutex", "verifsched.Mutex") + "\nvar _ sync.Once // keeps the import used in the replay build\n"
			out = addImport(out, "verifsched", schedPkg)
			usesSched = true
		}
		if inTarget && len(ov) > 0 && strings.Contains(out, "time.Now()") {
			out = strings.ReplaceAll(out, "time.Now()", "verifNow()") + "\nvar _ time.Duration // keeps the import used in the replay build\n"
		}
		if out != string(src) {
			add(p, []byte(out))
		}
		return nil
	})
	if usesSched {
		add(filepath.Join(modRoot, "internal", "verifsched", "verifsched.go"), schedSrc)
		// glue: the harness API's verifGoID reaches verifsched in the replay build
		for target, content := range ov {
			if strings.HasSuffix(target, "zz_verif_api.go") {
				glue := "package " + packageClause(content) + "\n\nimport verifsched \"" + schedPkg + "\"\n\nfunc init() { verifSetGoID = verifsched.SetGoID }\n"
				add(strings.TrimSuffix(target, "zz_verif_api.go")+"zz_verif_sched.go", []byte(glue))
			}
		}
	}
	b, _ := json.Marshal(map[string]interface{}{"Replace": repl})
	f := filepath.Join(outDir, "overlay-"+sanitize(pkg)+".json")
	return f, os.WriteFile(f, b, 0o644)
}

var (
	testBinMu  sync.Mutex
	testBins   = map[string]string{} // pkg -> compiled test binary ("" = build failed)
	testBinErr = map[string]string{}
)

// testBinary compiles (once per package) the package's test binary with all harness
// files injected through the overlay.
func testBinary(repo, ovFile, pkg string, race bool) (string, string) {
	testBinMu.Lock()
	defer testBinMu.Unlock()
	key := pkg
	if race {
		key += "#race"
	}
	if b, ok := testBins[key]; ok {
		return b, testBinErr[key]
	}
	p := "."
	if pkg != "" && pkg != "." {
		p = "./" + pkg
	}
	bin := filepath.Join(filepath.Dir(ovFile), "test-"+sanitize(key)+".bin")
	args := []string{"test", "-c", "-overlay", ovFile, "-vet=off", "-o", bin}
	if race {
		args = append(args, "-race")
	}
	cmd := exec.Command("go", append(args, p)...)
	cmd.Dir = filepath.Join(repo, "ociregistry")
	cmd.Env = append(os.Environ(), "GOWORK=off", "GOFLAGS=", "GOPROXY=off", "GOSUMDB=off", "GOTOOLCHAIN=local")
	out, err := cmd.CombinedOutput()
	if err != nil {
		testBins[key] = ""
		testBinErr[key] = "go test -c failed: " + tail(string(out), 10)
		return "", testBinErr[key]
	}
	testBins[key] = bin
	return bin, ""
}

const maxSamplesPerRun = 3

func nativeReplay(repo, ovFile, pkg, harness, params, vector string, race bool, sampleRun bool) (string, []string) {
	bin, berr := testBinary(repo, ovFile, pkg, race)
	if bin == "" {
		return "no-outcome: " + berr, nil
	}
	if race {
		// a race needs the right overlap of the two goroutines: try repeatedly
		last := ""
		tries := 40
		if sampleRun {
			tries = 3
		}
		for i := 0; i < tries; i++ {
			cmd := exec.Command(bin, "-test.run", "^TestVerifReplay$", "-test.count=1", "-test.timeout", "120s", "-test.v")
			cmd.Dir = filepath.Join(repo, "ociregistry", pkg)
			cmd.Env = append(os.Environ(), "VERIF_REPLAY="+vector, "VERIF_HARNESS="+harness, "VERIF_PARAMS="+params, "GORACE=halt_on_error=0")
			out, _ := cmd.CombinedOutput()
			if strings.Contains(string(out), "WARNING: DATA RACE") {
				return "race", nil
			}
			for _, line := range strings.Split(string(out), "\n") {
				if strings.HasPrefix(line, "VERIF-OUTCOME ") {
					last = strings.TrimPrefix(line, "VERIF-OUTCOME ")
				}
				if strings.HasPrefix(line, "VERIF-ASSERT-FAILED ") && last == "" {
					last = "assert-failed " + strings.TrimPrefix(line, "VERIF-ASSERT-FAILED ")
				}
			}
			if last != "ok" && last != "" {
				return last, nil
			}
		}
		return last, nil
	}
	cmd := exec.Command(bin, "-test.run", "^TestVerifReplay$", "-test.count=1", "-test.timeout", "120s", "-test.v")
	cmd.Dir = filepath.Join(repo, "ociregistry", pkg)
	cmd.Env = append(os.Environ(), "VERIF_REPLAY="+vector, "VERIF_HARNESS="+harness, "VERIF_PARAMS="+params)
	out, _ := cmd.CombinedOutput()
	var obs []string
	for _, line := range strings.Split(string(out), "\n") {
		if strings.HasPrefix(line, "VERIF-OBSERVE ") {
			obs = append(obs, strings.TrimPrefix(line, "VERIF-OBSERVE "))
		}
		if strings.HasPrefix(line, "VERIF-OUTCOME ") {
			return strings.TrimPrefix(line, "VERIF-OUTCOME "), obs
		}
	}
	s := string(out)
	// an assertion that fails in a goroutine other than the harness's own takes the whole
	// process down before an outcome line is printed: the native verifAssert announces
	// the label first
	for _, line := range strings.Split(s, "\n") {
		if strings.HasPrefix(line, "VERIF-ASSERT-FAILED ") {
			return "assert-failed " + strings.TrimPrefix(line, "VERIF-ASSERT-FAILED "), obs
		}
	}
	if strings.Contains(s, "panic: test timed out") {
		return "timeout", obs
	}
	if i := strings.Index(s, "panic:"); i >= 0 {
		return "panic " + firstLine(s[i:]), obs
	}
	if strings.Contains(s, "fatal error:") {
		return "panic " + firstLine(s[strings.Index(s, "fatal error:"):]), obs
	}
	return "no-outcome: " + tail(s, 5), obs
}

func firstLine(s string) string {
	if i := strings.IndexByte(s, '\n'); i >= 0 {
		return s[:i]
	}
	return s
}

func reproduces(out string, v *violation) bool {
	switch v.Kind {
	case "assert":
		return out == "assert-failed "+v.Label
	case "panic":
		return strings.HasPrefix(out, "panic ")
	case "race":
		return out == "race"
	case "nontermination":
		return out == "timeout"
	case "deadlock":
		return out == "timeout" || strings.Contains(out, "deadlock")
	}
	return strings.HasPrefix(out, "assert-failed") || strings.HasPrefix(out, "panic ")
}

func buildEvidence(prop, tier string, seed int, runs []*oneRun, pi propIndex, replayed, violations int, knownHit map[string]bool, wall float64, cross string) map[string]interface{} {
	var paths, queries, asserts, held int
	var steps int64
	var solverS float64
	funcs := map[string]bool{}
	stdf := map[string]bool{}
	modelsU := map[string]bool{}
	assum := map[string]bool{}
	for _, a := range pi.Assumptions {
		assum[a] = true
	}
	var samples []interface{}
	var hs []interface{}
	covers := map[string]int{}
	for _, r := range runs {
		if r.res == nil {
			continue
		}
		paths += r.res.Paths
		steps += r.res.Steps
		queries += r.res.SolverQueries
		asserts += r.res.Asserts
		held += r.res.AssertsHeld
		solverS += r.res.SolverTimeS
		for _, f := range r.res.FuncsRepo {
			funcs[f] = true
		}
		for _, f := range r.res.FuncsStd {
			stdf[f] = true
		}
		for _, f := range r.res.Models {
			modelsU[f] = true
		}
		for _, a := range r.res.Assumptions {
			assum[a] = true
		}
		for k, n := range r.res.Covers {
			covers[r.harness+":"+k] += n
		}
		if len(samples) < 6 && len(r.res.Samples) > 0 {
			samples = append(samples, map[string]interface{}{"harness": r.harness, "params": r.params, "path": r.res.Samples[0]})
		}
		hs = append(hs, map[string]interface{}{
			"name": r.harness, "package": r.group.Pkg, "params": r.params, "status": r.res.Status, "bounds": r.group.Bounds, "outside_the_claim": r.group.Out,
			"paths": r.res.Paths, "paths_ended": r.res.PathsEnded, "ssa_instructions": r.res.Steps, "solver_queries": r.res.SolverQueries,
			"assertion_queries": r.res.Asserts, "assertions_unsat": r.res.AssertsHeld, "assert_labels": r.res.AssertLabels, "covers_reached": r.res.Covers,
			"solver_time_s": r.res.SolverTimeS, "wall_s": r.res.WallS, "violations": len(r.res.Violations), "solver": solverName(r.solver), "cross_check_run": r.cross,
		})
	}
	if len(samples) == 0 {
		samples = append(samples, "no completed path was sampled")
	}
	keys := func(m map[string]bool) []string {
		out := []string{}
		for k := range m {
			out = append(out, k)
		}
		sort.Strings(out)
		return out
	}
	var kh []string
	for k := range knownHit {
		kh = append(kh, k)
	}
	sort.Strings(kh)
	if paths == 0 {
		paths = 1
	}
	if steps == 0 {
		steps = 1
	}
	cov := map[string]interface{}{
		"states":                        paths,
		"transitions":                   steps,
		"traces_validated_against_impl": replayed,
		"samples":                       samples,
		"obligations":                   asserts,
		"discharged":                    held,
		"explanation":                   "states = symbolic paths of the real go/ssa explored (each path stands for all inputs satisfying its path condition); transitions = SSA instructions interpreted; obligations = assertion queries pc∧¬assert sent to the solver, discharged = those answered unsat; traces_validated_against_impl = solver models replayed natively against the real build",
		"solver_queries":                queries,
		"solver_time_s":                 solverS,
		"solver":                        "one incremental SMT process per run; back end per run under harnesses[].solver (default z3 4.8.12)",
		"functions_encoded":             keys(funcs),
		"stdlib_interpreted_n":          len(stdf),
		"models_and_stubs":              keys(modelsU),
		"harnesses":                     hs,
		"covers_reached":                covers,
		"known_findings_hit":            kh,
		"exhaustive":                    false,
	}
	return map[string]interface{}{
		"property_id": prop, "tier": tier, "seed": seed, "level": "model_checking", "coverage": cov,
		"assumptions": keys(assum), "wall_s": wall, "violations": violations,
	}
}

// runWorker drives one engine process (package loaded once) through jobs.
func runWorker(exe, repo, root, prop, pkg string, jobs chan *oneRun) {
	var cmd *exec.Cmd
	var stdin io.WriteCloser
	var lines chan string
	var errBuf *strings.Builder
	startProc := func() bool {
		cmd = exec.Command(exe, "run", "-worker", "-repo", repo, "-harness-dir", filepath.Join(root, "harness"), "-pkg", pkg,
			"-property", prop, "-known", filepath.Join(root, "known_findings.jsonl"))
		errBuf = &strings.Builder{}
		cmd.Stderr = errBuf
		// the interpreter is single-threaded; without a cap each of up to 16 workers lets
		// the Go collector use a quarter of all cores
		if os.Getenv("GOMAXPROCS") == "" {
			cmd.Env = append(os.Environ(), "GOMAXPROCS=3")
		}
		var err error
		stdin, err = cmd.StdinPipe()
		if err != nil {
			return false
		}
		out, err := cmd.StdoutPipe()
		if err != nil {
			return false
		}
		if err := cmd.Start(); err != nil {
			return false
		}
		lines = make(chan string, 4)
		go func(lines chan string) {
			sc := bufio.NewScanner(out)
			sc.Buffer(make([]byte, 1<<20), 1<<20)
			for sc.Scan() {
				lines <- sc.Text()
			}
			close(lines)
		}(lines)
		return true
	}
	stopProc := func() {
		if cmd != nil {
			stdin.Close()
			cmd.Process.Kill()
			cmd.Wait()
			cmd = nil
		}
	}
	defer stopProc()
	for r := range jobs {
		if cmd == nil && !startProc() {
			r.exit = 2
			r.stderr = "cannot start engine worker"
			continue
		}
		to := r.cfg.Timeout
		if to == 0 {
			to = 120
		}
		job := map[string]interface{}{"harness": r.harness, "params": r.params, "out": r.resFile, "timeout": to,
			"maxpaths": r.cfg.MaxPaths, "maxsteps": r.cfg.MaxSteps, "qtimeout": r.cfg.QTimeout, "nonterm": r.group.NonTerm, "solver": r.solver}
		b, _ := json.Marshal(job)
		errBuf.Reset()
		io.WriteString(stdin, string(b)+"\n")
		timer := time.After(time.Duration(to+90) * time.Second)
		done := false
		for !done {
			select {
			case line, ok := <-lines:
				if !ok {
					r.exit = 2
					r.stderr = errBuf.String() + "\nengine worker exited unexpectedly"
					stopProc()
					done = true
					break
				}
				if strings.HasPrefix(line, "DONE ") {
					f := strings.Fields(line)
					r.exit, _ = strconv.Atoi(f[1])
					r.stderr = errBuf.String()
					done = true
				}
			case <-timer:
				r.exit = 2
				r.stderr = errBuf.String() + "\nengine worker killed after hard timeout"
				stopProc()
				done = true
			}
		}
	}
}

// replayOne re-runs one recorded counterexample natively against the current tree.
func replayOne(repo, root, outDir, prop string, pi propIndex, file string) int {
	data, err := os.ReadFile(file)
	if err != nil {
		fmt.Fprintln(os.Stderr, "replay:", err)
		return 2
	}
	var doc struct {
		Harness string `json:"harness"`
		Package string `json:"package"`
		Params  string `json:"params"`
		Label   string `json:"label"`
		Kind    string `json:"kind"`
		Detail  string `json:"detail"`
	}
	if err := json.Unmarshal(data, &doc); err != nil || doc.Harness == "" {
		fmt.Fprintln(os.Stderr, "replay: not a counterexample file:", file)
		return 2
	}
	race := false
	for _, g := range pi.Groups {
		if g.Pkg == doc.Package && g.RaceBuild && doc.Kind == "race" {
			race = true
		}
	}
	ov, err := writeReplayOverlay(repo, root, outDir, doc.Package)
	if err != nil {
		fmt.Fprintln(os.Stderr, "replay overlay:", err)
		return 2
	}
	abs, _ := filepath.Abs(file)
	out, obs := nativeReplay(repo, ov, doc.Package, doc.Harness, doc.Params, abs, race, false)
	defer os.RemoveAll(outDir)
	for _, o := range obs {
		fmt.Println("observed:", o)
	}
	fmt.Fprintf(os.Stderr, "%s %s [%s/%s]: native outcome: %s\n", doc.Harness, doc.Params, doc.Kind, doc.Label, out)
	if reproduces(out, &violation{Label: doc.Label, Kind: doc.Kind, Detail: doc.Detail}) {
		fmt.Printf("VIOLATION property=%s replay=%s\n", prop, abs)
		return 1
	}
	fmt.Fprintln(os.Stderr, "the recorded counterexample does not reproduce on the current tree")
	return 0
}

func solverName(k string) string {
	switch k {
	case "", "z3":
		return "z3 4.8.12"
	case "z3-new":
		return "z3 5.1.0 (z3-new)"
	case "cvc5":
		return "cvc5 1.0.x --incremental"
	}
	return k
}

// addImport inserts an import declaration right after the package clause.
func addImport(src, name, path string) string {
	lines := strings.SplitAfter(src, "\n")
	for i, l := range lines {
		if strings.HasPrefix(strings.TrimSpace(l), "package ") {
			lines[i] = l + "\nimport " + name + " \"" + path + "\"\n"
			return strings.Join(lines, "")
		}
	}
	return src
}
