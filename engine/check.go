package main

func cmdCheck(args []string) int { return 2 }

func (it *Interp) loadVector(path string) error { return nil }
