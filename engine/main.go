package main

import (
	"bufio"
	"encoding/json"
	"flag"
	"fmt"
	"go/types"
	"os"
	"path/filepath"
	"runtime/debug"
	"runtime/pprof"
	"sort"
	"strconv"
	"strings"
	"time"

	"golang.org/x/tools/go/packages"
	"golang.org/x/tools/go/ssa"
	"golang.org/x/tools/go/ssa/ssautil"
)

const repoModule = "cuelabs.dev/go/oci/ociregistry"

func main() {
	// the loaded program (types + SSA of the stdlib closure) is a large, long-lived heap:
	// collect less often
	debug.SetGCPercent(800)
	if v, err := strconv.Atoi(os.Getenv("SYMGO_REFRESH_DEFS")); err == nil && v > 0 {
		defsRefreshLimit = v // testing aid: force solver restarts
	}
	debug.SetMemoryLimit(2500 << 20) // soft: the collector works harder instead of letting a worker grow past this
	if len(os.Args) < 2 {
		fmt.Fprintln(os.Stderr, "usage: symgo run|check|selfcheck ...")
		os.Exit(2)
	}
	switch os.Args[1] {
	case "run":
		os.Exit(cmdRun(os.Args[2:]))
	case "check":
		os.Exit(cmdCheck(os.Args[2:]))
	default:
		fmt.Fprintln(os.Stderr, "unknown subcommand", os.Args[1])
		os.Exit(2)
	}
}

type runResult struct {
	Harness       string                 `json:"harness"`
	Package       string                 `json:"package"`
	Status        string                 `json:"status"` // ok, violation, inconclusive, incomplete
	Paths         int                    `json:"paths"`
	PathsEnded    map[string]int         `json:"paths_ended"`
	Steps         int64                  `json:"ssa_instructions_interpreted"`
	Decisions     int64                  `json:"decisions"`
	SolverQueries int                    `json:"solver_queries"`
	SolverSat     int                    `json:"solver_sat"`
	SolverUnsat   int                    `json:"solver_unsat"`
	SolverUnknown int                    `json:"solver_unknown"`
	SolverTimeS   float64                `json:"solver_time_s"`
	SolverErrors  []string               `json:"solver_errors,omitempty"`
	Asserts       int                    `json:"assertion_queries"`
	AssertsHeld   int                    `json:"assertions_held"`
	AssertLabels  map[string]int         `json:"assert_labels"`
	Covers        map[string]int         `json:"covers"`
	Violations    []violation            `json:"violations"`
	Inconclusive  []string               `json:"inconclusive,omitempty"`
	Incomplete    string                 `json:"incomplete,omitempty"`
	FuncsRepo     []string               `json:"functions_encoded"`
	FuncsStd      []string               `json:"stdlib_interpreted"`
	Models        []string               `json:"models"`
	Assumptions   []string               `json:"assumptions"`
	InitFailed    map[string]string      `json:"init_failed,omitempty"`
	Samples       []sampleRec            `json:"samples"`
	WallS         float64                `json:"wall_s"`
	LoadS         float64                `json:"load_s"`
	Solver        string                 `json:"solver"`
	Bounds        map[string]interface{} `json:"bounds,omitempty"`
}

type loaded struct {
	prog   *ssa.Program
	pkgs   []*ssa.Package
	byPath map[string]*ssa.Package
}

// overlayFor maps every file under harnessDir/<rel>/X.go to repoDir/<rel>/zz_verif_X.go.
// The shared API template is instantiated for every package that has harness files.
func overlayFor(repoDir, harnessDir string, includeTests bool) (map[string][]byte, []string, error) {
	ov := map[string][]byte{}
	var pkgDirs []string
	api, err := os.ReadFile(filepath.Join(harnessDir, "api.go.tmpl"))
	if err != nil {
		return nil, nil, err
	}
	err = filepath.Walk(harnessDir, func(p string, info os.FileInfo, err error) error {
		if err != nil {
			return err
		}
		if info.IsDir() || !strings.HasSuffix(p, ".go") {
			return nil
		}
		if strings.HasSuffix(p, "_test.go") && !includeTests {
			return nil
		}
		rel, _ := filepath.Rel(harnessDir, p)
		dir := filepath.Dir(rel)
		data, err := os.ReadFile(p)
		if err != nil {
			return err
		}
		target := filepath.Join(repoDir, dir, "zz_verif_"+filepath.Base(rel))
		ov[target] = data
		apiTarget := filepath.Join(repoDir, dir, "zz_verif_api.go")
		if _, ok := ov[apiTarget]; !ok {
			pkgName := packageClause(data)
			ov[apiTarget] = []byte(strings.Replace(string(api), "package PKG", "package "+pkgName, 1))
			pkgDirs = append(pkgDirs, dir)
		}
		return nil
	})
	return ov, pkgDirs, err
}

func packageClause(src []byte) string {
	for _, line := range strings.Split(string(src), "\n") {
		line = strings.TrimSpace(line)
		if strings.HasPrefix(line, "package ") {
			return strings.Fields(line)[1]
		}
	}
	return "main"
}

func loadProgram(repoDir, harnessDir string, patterns []string) (*loaded, error) {
	ov, _, err := overlayFor(repoDir, harnessDir, false)
	if err != nil {
		return nil, err
	}
	cfg := &packages.Config{
		Mode:    packages.LoadAllSyntax,
		Dir:     filepath.Join(repoDir, "ociregistry"),
		Overlay: ov,
		Env:     append(os.Environ(), "GOWORK=off", "GOFLAGS=", "GOPROXY=off", "GOSUMDB=off", "GOTOOLCHAIN=local"),
	}
	initial, err := packages.Load(cfg, patterns...)
	if err != nil {
		return nil, err
	}
	nerr := 0
	packages.Visit(initial, nil, func(p *packages.Package) {
		for _, e := range p.Errors {
			if nerr < 20 {
				fmt.Fprintln(os.Stderr, "load error:", e)
			}
			nerr++
		}
	})
	if nerr > 0 {
		return nil, fmt.Errorf("%d package load errors", nerr)
	}
	prog, pkgs := ssautil.AllPackages(initial, ssa.InstantiateGenerics|ssa.SanityCheckFunctions*0)
	prog.Build()
	l := &loaded{prog: prog, pkgs: pkgs, byPath: map[string]*ssa.Package{}}
	for _, p := range prog.AllPackages() {
		l.byPath[p.Pkg.Path()] = p
	}
	return l, nil
}

func newInterp(l *loaded, ex *Explorer) *Interp {
	it := &Interp{
		prog:          l.prog,
		ex:            ex,
		globals:       map[*ssa.Global]*Value{},
		pkgInit:       map[*ssa.Package]string{},
		sizes:         types.SizesFor("gc", "amd64"),
		funcsRepo:     map[string]int{},
		funcsStd:      map[string]int{},
		modelsUsed:    map[string]int{},
		repoPrefix:    "cuelabs.dev/go/oci",
		noMerge:       map[*ssa.If]bool{},
		mergeCache:    map[*ssa.Function]*mergeInfo{},
		condPureCache: map[*ssa.BasicBlock]bool{},
		pureFnCache:   map[*ssa.Function]bool{},
		mstate:        &modelState{assumptions: map[string]bool{}, perPath: map[string]interface{}{}},
	}
	ex.it = it
	return it
}

type sampleRec struct {
	PathDecisions []int        `json:"path_decisions"`
	Vector        []replayItem `json:"one_model_of_path_condition"`
	Observed      []string     `json:"observed"`
}

type runOpts struct {
	harness    string
	params     string
	maxPaths   int
	timeout    int
	maxSteps   int
	solverKind string
	qtimeout   int
	out        string
	trace      bool
	transcript string
	known      string
	property   string
	nonterm    bool
	vectorFile string
	pinned     bool
}

type session struct {
	l      *loaded
	pkg    *ssa.Package
	full   string
	it     *Interp
	loadS  float64
	inited bool
}

func newSession(repo, hdir, pkgPath string) (*session, error) {
	start := time.Now()
	full := pkgPath
	if !strings.HasPrefix(full, "cuelabs.dev/") {
		full = repoModule
		if pkgPath != "" && pkgPath != "." {
			full += "/" + pkgPath
		}
	}
	l, err := loadProgram(repo, hdir, []string{full})
	if err != nil {
		return nil, err
	}
	pkg := l.byPath[full]
	if pkg == nil {
		return nil, fmt.Errorf("package not loaded: %s", full)
	}
	return &session{l: l, pkg: pkg, full: full, loadS: time.Since(start).Seconds()}, nil
}

func cmdRun(args []string) int {
	fs := flag.NewFlagSet("run", flag.ExitOnError)
	repo := fs.String("repo", "/repo", "repository root")
	hdir := fs.String("harness-dir", "/verif/harness", "harness directory")
	pkgPath := fs.String("pkg", "", "package import path (relative to the module or absolute)")
	var o runOpts
	fs.StringVar(&o.harness, "harness", "", "harness function name")
	fs.IntVar(&o.maxPaths, "maxpaths", 200000, "path budget")
	fs.IntVar(&o.timeout, "timeout", 600, "wall clock budget (s)")
	fs.IntVar(&o.maxSteps, "maxsteps", 2000000, "interpreter step budget per path")
	fs.StringVar(&o.solverKind, "solver", "z3", "z3 | z3-new | cvc5")
	fs.IntVar(&o.qtimeout, "qtimeout", 10000, "per-query solver timeout (ms)")
	fs.StringVar(&o.out, "out", "", "result JSON file")
	fs.BoolVar(&o.trace, "trace", false, "trace instructions")
	fs.StringVar(&o.transcript, "smt", "", "write the SMT transcript to this file")
	fs.StringVar(&o.known, "known", "/verif/known_findings.jsonl", "known findings file")
	fs.StringVar(&o.property, "property", "", "property id (for known findings)")
	fs.StringVar(&o.params, "params", "", "harness parameters k=v,k=v (read by verifParam)")
	fs.BoolVar(&o.nonterm, "nonterm", false, "treat exceeding the step budget as a non-termination violation")
	fs.StringVar(&o.vectorFile, "vector", "", "concrete replay vector: run the harness with these inputs (selfcheck)")
	fs.BoolVar(&o.pinned, "pinned", false, "with -vector: keep inputs symbolic, pinned to the vector by solver constraints")
	cpuprof := fs.String("cpuprofile", "", "write a CPU profile")
	worker := fs.Bool("worker", false, "worker mode: read JSON jobs from stdin, one per line")
	fs.Parse(args)

	if *cpuprof != "" {
		f, _ := os.Create(*cpuprof)
		pprof.StartCPUProfile(f)
		defer pprof.StopCPUProfile()
	}
	s, err := newSession(*repo, *hdir, *pkgPath)
	if err != nil {
		fmt.Fprintln(os.Stderr, "load:", err)
		return 2
	}
	if *worker {
		sc := bufio.NewScanner(os.Stdin)
		sc.Buffer(make([]byte, 1<<20), 1<<20)
		for sc.Scan() {
			var job struct {
				Harness  string `json:"harness"`
				Params   string `json:"params"`
				Out      string `json:"out"`
				Timeout  int    `json:"timeout"`
				MaxPaths int    `json:"maxpaths"`
				MaxSteps int    `json:"maxsteps"`
				QTimeout int    `json:"qtimeout"`
				NonTerm  bool   `json:"nonterm"`
				Solver   string `json:"solver"`
			}
			if json.Unmarshal(sc.Bytes(), &job) != nil {
				continue
			}
			jo := o
			jo.harness, jo.params, jo.out, jo.nonterm = job.Harness, job.Params, job.Out, job.NonTerm
			if job.Timeout > 0 {
				jo.timeout = job.Timeout
			}
			if job.MaxPaths > 0 {
				jo.maxPaths = job.MaxPaths
			}
			if job.MaxSteps > 0 {
				jo.maxSteps = job.MaxSteps
			}
			if job.QTimeout > 0 {
				jo.qtimeout = job.QTimeout
			}
			if job.Solver != "" {
				jo.solverKind = job.Solver
			}
			code := s.run(jo)
			fmt.Printf("DONE %d %s\n", code, job.Out)
		}
		return 0
	}
	return s.run(o)
}

func (s *session) run(o runOpts) int {
	start := time.Now()
	l, pkg, full := s.l, s.pkg, s.full
	hfn := pkg.Func(o.harness)
	if hfn == nil {
		fmt.Fprintln(os.Stderr, "harness not found:", o.harness)
		return 2
	}
	var tw *os.File
	if o.transcript != "" {
		tw, _ = os.Create(o.transcript)
		defer tw.Close()
	}
	var solver *Solver
	var err error
	if tw != nil {
		solver, err = NewSolver(o.solverKind, o.qtimeout, tw)
	} else {
		solver, err = NewSolver(o.solverKind, o.qtimeout, nil)
	}
	if err != nil {
		fmt.Fprintln(os.Stderr, "solver:", err)
		return 2
	}
	defer solver.Close()
	// hash-consed terms carry solver-side definition state: start every run afresh
	internSmall = map[termKey]*Term{}
	internBig = map[string]*Term{}
	memoCache = map[string]string{}
	ex := &Explorer{solver: solver, maxPaths: o.maxPaths, maxSteps: o.maxSteps, maxConcretize: 64, nextSample: 1}
	ex.deadline = start.Add(time.Duration(o.timeout) * time.Second)
	ex.known = loadKnown(o.known, o.property, o.harness)
	if s.it == nil {
		s.it = newInterp(l, ex)
	}
	it := s.it
	it.ex = ex
	it.targetPkg = full
	ex.it = it
	it.funcsRepo = map[string]int{}
	it.funcsStd = map[string]int{}
	it.modelsUsed = map[string]int{}
	it.mstate.assumptions = map[string]bool{}
	it.trace = o.trace
	it.nonterminationIsViolation = o.nonterm
	it.params = parseParams(o.params)
	it.vector = nil
	it.pinned = o.pinned
	if o.vectorFile != "" {
		if err := it.loadVector(o.vectorFile); err != nil {
			fmt.Fprintln(os.Stderr, "vector:", err)
			return 2
		}
	}

	if !s.inited {
		// package initialisation (once; concrete)
		ex.maxSteps = 200000000
		initOK := true
		func() {
			defer func() {
				if r := recover(); r != nil {
					fmt.Fprintf(os.Stderr, "init failed: %v %s\n", r, it.panicWhere())
					initOK = false
				}
			}()
			it.runPackageInit(nil, pkg.Func("init"))
		}()
		if !initOK {
			return 2
		}
		if st := it.pkgInit[pkg]; st != "ok" {
			fmt.Fprintf(os.Stderr, "init of %s: %s\n", pkg.Pkg.Path(), st)
			return 2
		}
		s.inited = true
	}
	ex.journal = nil // initial state is the baseline
	ex.maxSteps = o.maxSteps
	ex.steps = 0
	loadS := s.loadS
	harness, params, out, solverKind := &o.harness, &o.params, &o.out, &o.solverKind

	entry := func() {
		it.mstate.perPath = map[string]interface{}{}
		it.mstate.symbolicMapOrder = false
		it.mstate.expectPanic = nil
		it.mstate.observe = nil
		it.mstate.observeVals = nil
		it.mstate.lastNow = nil
		it.mstate.manualClock = false
		it.mstate.preemptive = false
		it.mstate.fixedSched = false
		it.mstate.lockOrder = nil
		it.lockLog = nil
		it.mstate.universe = nil
		it.mstate.fakeDigests = 0
		it.curFrame = nil
		it.resetScheduler()
		defer it.killGoroutines()
		it.vectorPos = 0
		// merge decisions must be a function of the path alone (re-execution replays them)
		it.noMerge = map[*ssa.If]bool{}
		it.callSSA(&frame{it: it, g: it.sched.main}, 0, hfn, nil, nil)
		if len(it.mstate.observe) > 0 && len(ex.Observed) == 0 {
			ex.Observed = append([]string{}, it.mstate.observe...)
		}
		it.samplePath()
	}
	ex.Run(entry)

	res := runResult{
		Harness: *harness, Package: full, Paths: ex.Paths, PathsEnded: ex.PathsEnded, Steps: ex.StepsTotal, Decisions: ex.Decisions,
		SolverQueries: solver.Queries, SolverSat: solver.SatCount, SolverUnsat: solver.UnsatCount, SolverUnknown: solver.UnknownCnt,
		SolverTimeS: solver.Time.Seconds(), SolverErrors: solver.Errors, Asserts: ex.Asserts, AssertsHeld: ex.AssertsHeld, AssertLabels: ex.AssertLabels,
		Covers: ex.Covers, Violations: ex.Violations, Inconclusive: ex.Inconclusive, Incomplete: ex.Incomplete, Samples: ex.Samples,
		WallS: time.Since(start).Seconds(), LoadS: loadS, Solver: *solverKind,
	}
	for f := range it.funcsRepo {
		if !strings.Contains(f, "Verif") && !strings.Contains(f, "verif") {
			res.FuncsRepo = append(res.FuncsRepo, f)
		}
	}
	sort.Strings(res.FuncsRepo)
	for f := range it.funcsStd {
		res.FuncsStd = append(res.FuncsStd, f)
	}
	sort.Strings(res.FuncsStd)
	for f := range it.modelsUsed {
		res.Models = append(res.Models, f)
	}
	sort.Strings(res.Models)
	for a := range it.mstate.assumptions {
		res.Assumptions = append(res.Assumptions, a)
	}
	sort.Strings(res.Assumptions)
	res.InitFailed = map[string]string{}
	for p, st := range it.pkgInit {
		if strings.HasPrefix(st, "failed") {
			res.InitFailed[p.Pkg.Path()] = st
		}
	}
	if len(solver.Errors) > 0 {
		ex.inconclusive("solver reported errors: " + solver.Errors[0])
		res.Inconclusive = ex.Inconclusive
	}
	newViol := 0
	for _, v := range ex.Violations {
		if v.Known == "" {
			newViol++
		}
	}
	switch {
	case newViol > 0:
		res.Status = "violation"
	case len(ex.Inconclusive) > 0:
		res.Status = "inconclusive"
	case ex.Incomplete != "":
		res.Status = "incomplete"
	default:
		res.Status = "ok"
	}
	if res.Status == "ok" && ex.Asserts == 0 && len(ex.Covers) == 0 {
		res.Status = "inconclusive"
		res.Inconclusive = append(res.Inconclusive, "vacuous: no assertion and no cover label was reached")
	}
	data, _ := json.MarshalIndent(res, "", " ")
	if *out != "" {
		os.WriteFile(*out, data, 0o644)
	} else {
		os.Stdout.Write(data)
		fmt.Println()
	}
	if os.Getenv("SYMGO_STATS") != "" {
		fmt.Fprintf(os.Stderr, "solver values %d calls %.2fs; send time %.2fs read time %.2fs bytes %d; merges %d aborts %d; absDecided %d decisions %d steps %d\n", solver.ValuesCalls, solver.ValuesTime.Seconds(), solver.SendTime.Seconds(), solver.ReadTime.Seconds(), solver.SendBytes, it.Merges, it.MergeAborts, ex.AbsDecided, ex.Decisions, ex.StepsTotal)
	}
	fmt.Fprintf(os.Stderr, "%s %s: %s paths=%d asserts=%d/%d queries=%d solver=%.2fs wall=%.2fs viol=%d restarts=%d\n", *harness, *params, res.Status, res.Paths, res.AssertsHeld, res.Asserts, solver.Queries, solver.Time.Seconds(), res.WallS, len(res.Violations), solver.Restarts)
	for _, m := range res.Inconclusive {
		fmt.Fprintln(os.Stderr, "  inconclusive:", m)
	}
	for _, v := range res.Violations {
		fmt.Fprintf(os.Stderr, "  violation[%s] %s: %s known=%q\n", v.Kind, v.Label, v.Detail, v.Known)
	}
	switch res.Status {
	case "ok":
		return 0
	case "violation":
		return 1
	}
	return 2
}

func parseParams(s string) map[string]string {
	m := map[string]string{}
	for _, kv := range strings.Split(s, ",") {
		if kv == "" {
			continue
		}
		k, v, _ := strings.Cut(kv, "=")
		m[k] = v
	}
	return m
}

// samplePath records a few completed paths (decoded inputs of one model each).
func (it *Interp) samplePath() {
	ex := it.ex
	if ex.replaying() {
		return
	}
	// sample completed paths number 1, 4, 16, 64, ... (at most 6)
	ex.completed++
	if len(ex.Samples) >= 6 || ex.completed != ex.nextSample {
		return
	}
	ex.nextSample *= 4
	// in a scratch frame: declare/define everything the observations mention (this can
	// pull in heavy defining constraints) and take one model for vector and observations
	ex.solver.Push()
	defer ex.solver.Pop()
	it.refObserved()
	if ex.solver.Check() != Sat {
		return
	}
	vec := ex.modelVector()
	obs := it.observedInModel()
	var tr []int
	for _, d := range ex.trail[:ex.pos] {
		tr = append(tr, d.chosen)
	}
	ex.Samples = append(ex.Samples, sampleRec{PathDecisions: tr, Vector: vec, Observed: obs})
}

// observedInModel renders the verifObserve values of the current path under the
// solver's current model (the one the sample vector was taken from).
func (it *Interp) refObserved() {
	for _, t := range it.observedTerms() {
		it.ex.solver.ref(t)
	}
}

func (it *Interp) observedTerms() []*Term {
	var terms []*Term
	for _, o := range it.mstate.observeVals {
		switch v := o.v.(type) {
		case *Term:
			if !v.isConst() {
				terms = append(terms, v)
			}
		case Str:
			if !v.isConcrete() && !v.isAtom() {
				for _, b := range v.bytes() {
					if !b.isConst() {
						terms = append(terms, b)
					}
				}
			}
		}
	}
	return terms
}

func (it *Interp) observedInModel() []string {
	terms := it.observedTerms()
	vals := map[*Term]uint64{}
	if len(terms) > 0 {
		m := it.ex.solver.ValuesOfTerms(terms)
		for i, t := range terms {
			vals[t] = m[i]
		}
	}
	val := func(t *Term) uint64 {
		if t.isConst() {
			return t.cv
		}
		return vals[t] & mask(t.sort)
	}
	out := []string{}
	for _, o := range it.mstate.observeVals {
		switch v := o.v.(type) {
		case *Term:
			if v.sort == SBool {
				out = append(out, fmt.Sprintf("%s=%v", o.name, val(v) != 0))
			} else {
				c := &Term{op: "const", sort: v.sort, cv: val(v)}
				out = append(out, fmt.Sprintf("%s=%d", o.name, c.sval()))
			}
		case Str:
			if v.isAtom() {
				out = append(out, o.name+"=?")
				continue
			}
			var b []byte
			for _, t := range v.bytes() {
				b = append(b, byte(val(t)))
			}
			out = append(out, fmt.Sprintf("%s=%q", o.name, string(b)))
		default:
			out = append(out, o.name+"="+observeString(o.v))
		}
	}
	return out
}
