package main

// Goroutines, channels, select: a cooperative scheduler. Every interpreted goroutine
// runs on its own host goroutine, but only the holder of the token executes; at each
// synchronisation operation (go, channel send/receive/close, select, mutex, WaitGroup,
// goroutine exit) the scheduler choice "who runs next" is a recorded decision point,
// so interleavings are explored like any other choice and are part of the model.

import (
	"fmt"
	"go/token"
	"go/types"
	"os"
	"strings"

	"golang.org/x/tools/go/ssa"
)

var debugSched = os.Getenv("SYMGO_DEBUG_SCHED") != ""

type goroutine struct {
	id       int
	resume   chan resumeMsg
	done     bool
	waitCond func() bool // nil = runnable; otherwise runnable when it returns true
	why      string
	started  bool
}

type resumeMsg struct {
	kill     bool
	deadlock bool
}

type goroutineKilled struct{}

type scheduler struct {
	gs        []*goroutine
	cur       *goroutine
	main      *goroutine
	points    int
	pending   interface{} // a panic raised in a non-main goroutine, to be re-raised in main
	maxPoints int
}

func (it *Interp) resetScheduler() {
	if it.sched != nil {
		it.killGoroutines()
	}
	m := &goroutine{id: 0, resume: make(chan resumeMsg), started: true}
	it.sched = &scheduler{gs: []*goroutine{m}, cur: m, main: m, maxPoints: 400}
}

// killGoroutines unblocks and unwinds every host goroutine still parked (end of path).
func (it *Interp) killGoroutines() {
	s := it.sched
	if s == nil {
		return
	}
	for _, g := range s.gs {
		if g != s.main && !g.done && g.started {
			g.resume <- resumeMsg{kill: true}
			<-s.main.resume // the killed goroutine reports back
		}
	}
}

func (s *scheduler) runnable() []*goroutine {
	var out []*goroutine
	for _, g := range s.gs {
		if g.done {
			continue
		}
		if g.waitCond == nil || g.waitCond() {
			out = append(out, g)
		}
	}
	return out
}

// transfer hands the token from the current goroutine to next and parks the current
// host goroutine until it is resumed.
func (it *Interp) transfer(next *goroutine) {
	s := it.sched
	cur := s.cur
	if next == cur {
		return
	}
	s.cur = next
	it.wake(next)
	it.park(cur)
}

func (it *Interp) wake(g *goroutine) {
	if !g.started {
		g.started = true
		go g.run()
		return
	}
	g.resume <- resumeMsg{}
}

func (it *Interp) park(g *goroutine) {
	msg := <-g.resume
	it.sched.cur = g
	if msg.kill {
		panic(goroutineKilled{})
	}
	if msg.deadlock {
		panic(targetPanic{implicit: "all goroutines are asleep - deadlock!"})
	}
	if g == it.sched.main && it.sched.pending != nil {
		p := it.sched.pending
		it.sched.pending = nil
		panic(p)
	}
}

var goroutineBody = map[*goroutine]func(){}

func (g *goroutine) run() { goroutineBody[g]() }

// schedule picks the next goroutine to run among the runnable ones (a decision point).
func (it *Interp) pickNext() *goroutine {
	s := it.sched
	rs := s.runnable()
	if len(rs) == 0 {
		return nil
	}
	s.points++
	if s.points > s.maxPoints {
		panic(unsupported(fmt.Sprintf("more than %d scheduling points on one path", s.maxPoints)))
	}
	if len(rs) == 1 || it.mstate.fixedSched {
		// fixedSched: the harness declared that the order of its goroutines is not what it
		// is about (verifFixedSchedule): always the first runnable one
		return rs[0]
	}
	return rs[it.ex.chooseFree("sched", len(rs))]
}

// yieldPoint: the current goroutine stays runnable; anyone runnable may go next.
func (it *Interp) yieldPoint(fr *frame, why string) {
	s := it.sched
	if s == nil || len(s.gs) == 1 {
		return
	}
	// Non-preemptive by default: a goroutine runs until it blocks or exits, and only
	// then is the next one chosen. For programs that synchronise through channels,
	// mutexes and wait groups this explores every ordering of the segments between
	// blocking points (the interleavings that can differ observably); a harness can
	// ask for pre-emption at every synchronisation operation with verifPreemptive.
	if !it.mstate.preemptive {
		return
	}
	// pre-emption right after a release is enough to order critical sections in every
	// possible way (switching before an acquire equals switching after the previous
	// release, the code in between being goroutine-local)
	if why != "unlock" && why != "close" && why != "wg.done" {
		return
	}
	it.impure("scheduling point")
	next := it.pickNext()
	if next != nil && next != s.cur {
		it.transfer(next)
	}
}

// blockOn parks the current goroutine until cond holds. Returns false on deadlock (no
// goroutine can run).
func (it *Interp) blockUntil(fr *frame, why string, cond func() bool) {
	s := it.sched
	if cond() {
		return
	}
	it.impure("blocking operation")
	cur := s.cur
	cur.waitCond = cond
	cur.why = why
	for !cond() {
		next := it.pickNextExcludingBlocked()
		if next == nil {
			cur.waitCond = nil
			panic(targetPanic{implicit: "all goroutines are asleep - deadlock! (" + why + ")"})
		}
		if next == cur {
			break
		}
		it.transfer(next)
	}
	cur.waitCond = nil
}

func (it *Interp) pickNextExcludingBlocked() *goroutine { return it.pickNext() }

// blockOn (legacy helper used by mutex code): wait until another goroutine made progress.
func (it *Interp) blockOn(fr *frame, why string) bool {
	s := it.sched
	if s == nil || len(s.gs) == 1 {
		return false
	}
	// become non-runnable for one scheduling round
	cur := s.cur
	released := false
	cur.waitCond = func() bool { return released }
	cur.why = why
	var others []*goroutine
	for _, g := range s.runnable() {
		if g != cur {
			others = append(others, g)
		}
	}
	if len(others) == 0 {
		cur.waitCond = nil
		return false
	}
	released = true // once someone else has run we may re-check
	cur.waitCond = nil
	next := others[0]
	if len(others) > 1 {
		next = others[it.ex.chooseFree("sched", len(others))]
	}
	it.transfer(next)
	return true
}

func (it *Interp) goStart(fr *frame, instr *ssa.Go, fn Value, args []Value) {
	it.impure("go statement")
	s := it.sched
	g := &goroutine{id: len(s.gs), resume: make(chan resumeMsg)}
	s.gs = append(s.gs, g)
	if it.lockLog != nil {
		it.lockLog.fork(s.cur, g)
	}
	goroutineBody[g] = func() {
		defer func() {
			delete(goroutineBody, g)
			r := recover()
			g.done = true
			if _, killed := r.(goroutineKilled); killed {
				s.main.resume <- resumeMsg{}
				return
			}
			if r != nil {
				// any abnormal end of a goroutine ends the path in main
				if s.pending == nil {
					s.pending = r
				}
				s.cur = s.main
				s.main.waitCond = nil
				s.main.resume <- resumeMsg{}
				return
			}
			// normal exit: hand the token on
			if it.lockLog != nil {
				it.lockLog.release(g, g)
			}
			next := it.pickNextOnExit()
			if next == nil {
				// nobody can run: if main is blocked this is a deadlock
				s.cur = s.main
				s.main.resume <- resumeMsg{deadlock: true}
				return
			}
			s.cur = next
			it.wake(next)
		}()
		gfr := &frame{it: it, g: g}
		it.curFrame = nil
		it.call(gfr, instr.Pos(), fn, args)
	}
	it.yieldPoint(fr, "go")
}

func (it *Interp) pickNextOnExit() (g *goroutine) {
	defer func() {
		// a decision taken while exiting may end the path (budget, infeasible): route to main
		if r := recover(); r != nil {
			if it.sched.pending == nil {
				it.sched.pending = r
			}
			g = it.sched.main
			g.waitCond = nil
		}
	}()
	return it.pickNext()
}

// ---- channels
//
// Rendezvous is atomic: a blocked receiver (plain or in a select) registers a waiter on
// the channel; a sender that finds a live waiter hands the value over directly and
// thereby resolves the receiver's select to that case (and symmetrically for blocked
// senders). Buffered channels use buf.

type selWait struct {
	fired bool
	idx   int
	val   Value
	ok    bool
}

type waiter struct {
	sel     *selWait
	caseIdx int
	isSend  bool
	val     Value // value offered by a blocked sender
}

type Chan struct {
	buf    []Value
	cap    int
	closed bool
	recvq  []*waiter
	sendq  []*waiter
}

func (it *Interp) makeChan(fr *frame, size Value) Value {
	n := int(it.concreteInt(size, "chan size"))
	return &Chan{cap: n}
}

func liveWaiter(q []*waiter) *waiter {
	for _, w := range q {
		if !w.sel.fired {
			return w
		}
	}
	return nil
}

func (ch *Chan) canSend() bool {
	return ch.closed || liveWaiter(ch.recvq) != nil || len(ch.buf) < ch.cap
}

func (ch *Chan) canRecv() bool {
	return len(ch.buf) > 0 || liveWaiter(ch.sendq) != nil || ch.closed
}

// doSend performs a send known to be ready (canSend).
func (it *Interp) doSend(ch *Chan, v Value) {
	if it.lockLog != nil {
		it.lockLog.release(it.sched.cur, ch)
	}
	if ch.closed {
		panic(targetPanic{implicit: "send on closed channel"})
	}
	if w := liveWaiter(ch.recvq); w != nil {
		w.sel.fired, w.sel.idx, w.sel.val, w.sel.ok = true, w.caseIdx, copyVal(v), true
		return
	}
	ch.buf = append(append([]Value{}, ch.buf...), copyVal(v))
}

// doRecv performs a receive known to be ready (canRecv).
func (it *Interp) doRecv(ch *Chan, elem types.Type) (Value, bool) {
	if it.lockLog != nil {
		it.lockLog.acquire(it.sched.cur, ch)
	}
	if len(ch.buf) > 0 {
		v := ch.buf[0]
		ch.buf = append([]Value{}, ch.buf[1:]...)
		// a blocked sender can now move its value into the buffer
		if w := liveWaiter(ch.sendq); w != nil {
			ch.buf = append(ch.buf, w.val)
			w.sel.fired, w.sel.idx = true, w.caseIdx
		}
		return v, true
	}
	if w := liveWaiter(ch.sendq); w != nil {
		w.sel.fired, w.sel.idx = true, w.caseIdx
		return w.val, true
	}
	return zero(elem), false // closed and drained
}

func removeWaiters(q []*waiter, sel *selWait) []*waiter {
	var out []*waiter
	for _, w := range q {
		if w.sel != sel && !w.sel.fired {
			out = append(out, w)
		}
	}
	return out
}

func (it *Interp) chanSend(fr *frame, chv, v Value) {
	it.impure("concurrency")
	ch, _ := it.resolveNil(fr, chv).(*Chan)
	it.yieldPoint(fr, "send")
	if ch == nil {
		it.blockUntil(fr, "send on nil channel", func() bool { return false })
		return
	}
	if ch.canSend() {
		it.doSend(ch, v)
		return
	}
	sel := &selWait{}
	ch.sendq = append(ch.sendq, &waiter{sel: sel, isSend: true, val: copyVal(v)})
	it.blockUntil(fr, "chan send", func() bool { return sel.fired || ch.closed })
	ch.sendq = removeWaiters(ch.sendq, sel)
	if !sel.fired {
		panic(targetPanic{implicit: "send on closed channel"})
	}
}

func (it *Interp) chanRecv(fr *frame, chv Value, commaOk bool, elem types.Type) Value {
	it.impure("concurrency")
	ch, _ := it.resolveNil(fr, chv).(*Chan)
	it.yieldPoint(fr, "recv")
	if ch == nil {
		it.blockUntil(fr, "receive from nil channel", func() bool { return false })
	}
	var v Value
	var ok bool
	if ch.canRecv() {
		v, ok = it.doRecv(ch, elem)
	} else {
		sel := &selWait{}
		ch.recvq = append(ch.recvq, &waiter{sel: sel})
		it.blockUntil(fr, "chan receive", func() bool { return sel.fired || ch.closed })
		ch.recvq = removeWaiters(ch.recvq, sel)
		if it.lockLog != nil {
			it.lockLog.acquire(it.sched.cur, ch)
		}
		if sel.fired {
			v, ok = sel.val, true
		} else {
			v, ok = zero(elem), false
		}
	}
	if commaOk {
		return Tuple{v, mkBool(ok)}
	}
	return v
}

func (it *Interp) chanClose(fr *frame, chv Value) {
	it.impure("concurrency")
	ch, _ := it.resolveNil(fr, chv).(*Chan)
	if ch == nil {
		panic(targetPanic{implicit: "close of nil channel"})
	}
	if ch.closed {
		panic(targetPanic{implicit: "close of closed channel"})
	}
	if it.lockLog != nil {
		it.lockLog.release(it.sched.cur, ch)
	}
	ch.closed = true
	it.yieldPoint(fr, "close")
}

// selectStmt: among the ready cases one is chosen (a decision point); blocks if none is
// ready and there is no default.
func (it *Interp) selectStmt(fr *frame, instr *ssa.Select) Value {
	it.impure("select")
	type scase struct {
		ch   *Chan
		send bool
		val  Value
		elem types.Type
	}
	cases := make([]scase, len(instr.States))
	for i, st := range instr.States {
		ch, _ := it.resolveNil(fr, fr.get(st.Chan)).(*Chan)
		c := scase{ch: ch, send: st.Dir == types.SendOnly, elem: st.Chan.Type().Underlying().(*types.Chan).Elem()}
		if c.send {
			c.val = fr.get(st.Send)
		}
		cases[i] = c
	}
	it.yieldPoint(fr, "select")
	ready := func() []int {
		var out []int
		for i, c := range cases {
			if c.ch == nil {
				continue
			}
			if (c.send && c.ch.canSend()) || (!c.send && c.ch.canRecv()) {
				out = append(out, i)
			}
		}
		return out
	}
	perform := func(idx int) Value {
		c := cases[idx]
		if c.send {
			it.doSend(c.ch, c.val)
			return it.selectResult(instr, idx, nil, false)
		}
		v, ok := it.doRecv(c.ch, c.elem)
		return it.selectResult(instr, idx, v, ok)
	}
	choose := func(rs []int) int {
		if len(rs) == 1 {
			return rs[0]
		}
		return rs[it.ex.chooseFree("select", len(rs))]
	}
	if rs := ready(); len(rs) > 0 {
		return perform(choose(rs))
	}
	if !instr.Blocking {
		return it.selectResult(instr, -1, nil, false)
	}
	// block: register on every channel
	sel := &selWait{}
	for i, c := range cases {
		if c.ch == nil {
			continue
		}
		if c.send {
			c.ch.sendq = append(c.ch.sendq, &waiter{sel: sel, caseIdx: i, isSend: true, val: copyVal(c.val)})
		} else {
			c.ch.recvq = append(c.ch.recvq, &waiter{sel: sel, caseIdx: i})
		}
	}
	anyClosed := func() bool {
		for _, c := range cases {
			if c.ch != nil && c.ch.closed {
				return true
			}
		}
		return false
	}
	it.blockUntil(fr, "select", func() bool { return sel.fired || anyClosed() })
	fired := sel.fired
	for _, c := range cases {
		if c.ch != nil {
			c.ch.sendq = removeWaiters(c.ch.sendq, sel)
			c.ch.recvq = removeWaiters(c.ch.recvq, sel)
		}
	}
	if fired {
		c := cases[sel.idx]
		if it.lockLog != nil {
			it.lockLog.acquire(it.sched.cur, c.ch)
		}
		if c.send {
			return it.selectResult(instr, sel.idx, nil, false)
		}
		return it.selectResult(instr, sel.idx, sel.val, true)
	}
	// woken by a close: some case is ready now
	sel.fired = true // no counterpart may complete with us any more
	return perform(choose(ready()))
}

func (it *Interp) selectResult(instr *ssa.Select, chosen int, recv Value, recvOk bool) Value {
	r := Tuple{mkInt(int64(chosen)), mkBool(recvOk)}
	for i, st := range instr.States {
		if st.Dir == types.RecvOnly {
			var v Value
			if i == chosen && recvOk {
				v = recv
			} else {
				v = zero(st.Chan.Type().Underlying().(*types.Chan).Elem())
			}
			r = append(r, v)
		}
	}
	return r
}

// quiesce lets every other goroutine run until none is runnable; returns how many are
// still alive (blocked forever unless someone acts).
func (it *Interp) quiesce(fr *frame) int {
	s := it.sched
	for {
		var others []*goroutine
		for _, g := range s.runnable() {
			if g != s.cur {
				others = append(others, g)
			}
		}
		if len(others) == 0 {
			break
		}
		// main waits until no other goroutine can run
		cur := s.cur
		cur.waitCond = func() bool {
			for _, g := range s.runnable2(cur) {
				_ = g
				return false
			}
			return true
		}
		next := others[0]
		if len(others) > 1 {
			next = others[it.ex.chooseFree("sched", len(others))]
		}
		it.transfer(next)
		cur.waitCond = nil
	}
	if it.lockLog != nil {
		for _, g := range s.gs {
			if g.done {
				it.lockLog.acquire(s.cur, g)
			}
		}
	}
	alive := 0
	for _, g := range s.gs {
		if g != s.cur && !g.done {
			alive++
			if debugSched {
				fmt.Fprintf(os.Stderr, "quiesce: goroutine %d still alive, blocked on %q (started=%v)\n", g.id, g.why, g.started)
			}
		}
	}
	return alive
}

// runnable2: runnable goroutines other than except.
func (s *scheduler) runnable2(except *goroutine) []*goroutine {
	var out []*goroutine
	for _, g := range s.gs {
		if g == except || g.done {
			continue
		}
		if g.waitCond == nil || g.waitCond() {
			out = append(out, g)
		}
	}
	return out
}

// ---- data-race detection (C08): vector clocks over the scheduler's happens-before
// (go statements, mutexes, channels, wait groups, atomics, quiescence).

const maxG = 8

type vclock [maxG]int

func (a *vclock) join(b *vclock) {
	for i := range a {
		if b[i] > a[i] {
			a[i] = b[i]
		}
	}
}

type accessRec struct {
	g     int
	clock int
	where whereRef
}

// whereRef identifies the innermost repository (non-harness) frame of an access; its
// text is only built when a race is reported.
type whereRef struct {
	fn  *ssa.Function
	pos token.Pos
}

var whereFnCache = map[*ssa.Function]bool{}

type locState struct {
	lastWrite accessRec
	hasWrite  bool
	reads     []accessRec
}

type raceReport struct {
	what string
}

type lockLogger struct {
	it    *Interp
	gvc   map[*goroutine]*vclock
	objvc map[interface{}]*vclock // mutexes, channels, wait groups, atomics
	locs  map[interface{}]*locState
	races []string
	seen  map[string]bool
}

func newRaceDetector(it *Interp) *lockLogger {
	return &lockLogger{it: it, gvc: map[*goroutine]*vclock{}, objvc: map[interface{}]*vclock{}, locs: map[interface{}]*locState{}, seen: map[string]bool{}}
}

func (l *lockLogger) vcOf(g *goroutine) *vclock {
	if g == nil {
		g = l.it.sched.main
	}
	v := l.gvc[g]
	if v == nil {
		v = &vclock{}
		v[g.id%maxG] = 1
		l.gvc[g] = v
	}
	return v
}

func (l *lockLogger) cur(fr *frame) *goroutine {
	if l.it.sched != nil && l.it.sched.cur != nil {
		return l.it.sched.cur
	}
	return nil
}

func (l *lockLogger) fork(parent, child *goroutine) {
	pv := l.vcOf(parent)
	cv := &vclock{}
	*cv = *pv
	cv[child.id%maxG]++
	l.gvc[child] = cv
	pv[parent.id%maxG]++
}

// acquire: the goroutine learns everything released on obj.
func (l *lockLogger) acquire(g *goroutine, obj interface{}) {
	if ov := l.objvc[obj]; ov != nil {
		l.vcOf(g).join(ov)
	}
}

// release: obj learns everything the goroutine has done.
func (l *lockLogger) release(g *goroutine, obj interface{}) {
	gv := l.vcOf(g)
	ov := l.objvc[obj]
	if ov == nil {
		ov = &vclock{}
		l.objvc[obj] = ov
	}
	ov.join(gv)
	if g == nil {
		g = l.it.sched.main
	}
	gv[g.id%maxG]++
}

func (l *lockLogger) lock(fr *frame, p *Value)   { l.acquire(l.cur(fr), p) }
func (l *lockLogger) unlock(fr *frame, p *Value) { l.release(l.cur(fr), p) }

func (l *lockLogger) where(fr *frame) whereRef {
	for f := fr; f != nil; f = f.caller {
		if f.fn == nil {
			continue
		}
		in, ok := whereFnCache[f.fn]
		if !ok {
			name := f.fn.String()
			in = strings.Contains(name, "cuelabs.dev/go/oci") && !strings.Contains(name, "Verif") && !strings.Contains(name, "verif")
			whereFnCache[f.fn] = in
		}
		if in {
			w := whereRef{fn: f.fn}
			if f.curInstr != nil {
				w.pos = f.curInstr.Pos()
			}
			return w
		}
	}
	return whereRef{}
}

func (l *lockLogger) whereString(w whereRef) string {
	if w.fn == nil {
		return "(harness)"
	}
	pos := ""
	if w.pos.IsValid() {
		p := l.it.prog.Fset.Position(w.pos)
		pos = fmt.Sprintf(" %s:%d", shortFile(p.Filename), p.Line)
	}
	return w.fn.String() + pos
}

func (l *lockLogger) access(fr *frame, p *Value, write bool) { l.accessObj(fr, p, write) }

func (l *lockLogger) accessObj(fr *frame, obj interface{}, write bool) {
	s := l.it.sched
	if s == nil || len(s.gs) < 2 {
		return // single-threaded so far
	}
	g := s.cur
	gv := l.vcOf(g)
	st := l.locs[obj]
	if st == nil {
		st = &locState{}
		l.locs[obj] = st
	}
	gi := g.id % maxG
	report := func(prev accessRec, prevKind string) {
		kind := "read"
		if write {
			kind = "write"
		}
		wr := l.where(fr)
		if wr.fn == nil && prev.where.fn == nil {
			return
		}
		a, b := l.whereString(prev.where), l.whereString(wr)
		msg := fmt.Sprintf("data race: %s at %s (goroutine %d) is concurrent with %s at %s (goroutine %d)", prevKind, a, prev.g, kind, b, g.id)
		key := a + "|" + b
		if b < a {
			key = b + "|" + a
		}
		if !l.seen[key] {
			l.seen[key] = true
			l.races = append(l.races, msg)
		}
	}
	if st.hasWrite && st.lastWrite.g != g.id && st.lastWrite.clock > gv[st.lastWrite.g%maxG] {
		report(st.lastWrite, "write")
	}
	if write {
		for _, r := range st.reads {
			if r.g != g.id && r.clock > gv[r.g%maxG] {
				report(r, "read")
			}
		}
		st.lastWrite = accessRec{g: g.id, clock: gv[gi], where: l.where(fr)}
		st.hasWrite = true
		st.reads = st.reads[:0]
	} else {
		found := false
		for i := range st.reads {
			if st.reads[i].g == g.id {
				st.reads[i].clock = gv[gi]
				st.reads[i].where = l.where(fr)
				found = true
			}
		}
		if !found {
			st.reads = append(st.reads, accessRec{g: g.id, clock: gv[gi], where: l.where(fr)})
		}
	}
}
