package main

// Goroutines, channels, select.

import (
	"go/types"

	"golang.org/x/tools/go/ssa"
)

type goroutine struct {
	id int
}

type scheduler struct{}

type Chan struct {
	buf    []Value
	cap    int
	closed bool
	elem   types.Type
}

func (it *Interp) goStart(fr *frame, instr *ssa.Go, fn Value, args []Value) {
	it.impure("concurrency")
	panic(unsupported("go statement"))
}

func (it *Interp) makeChan(fr *frame, size Value) Value {
	n := int(it.concreteInt(size, "chan size"))
	return &Chan{cap: n}
}

func (it *Interp) chanSend(fr *frame, chv, v Value) {
	it.impure("concurrency")
	ch := chv.(*Chan)
	if ch == nil {
		if !it.blockOn(fr, "send on nil chan") {
			panic(targetPanic{implicit: "all goroutines are asleep - deadlock! (send on nil channel)"})
		}
	}
	for {
		if ch.closed {
			panic(targetPanic{implicit: "send on closed channel"})
		}
		if len(ch.buf) < ch.cap {
			old := ch.buf
			it.ex.journal = append(it.ex.journal, undoEntry{fn: func() { ch.buf = old }})
			ch.buf = append(append([]Value{}, ch.buf...), copyVal(v))
			return
		}
		if !it.blockOn(fr, "chan send") {
			panic(targetPanic{implicit: "all goroutines are asleep - deadlock! (chan send)"})
		}
	}
}

func (it *Interp) chanRecv(fr *frame, chv Value, commaOk bool, elem types.Type) Value {
	it.impure("concurrency")
	ch := chv.(*Chan)
	for {
		if ch != nil && len(ch.buf) > 0 {
			old := ch.buf
			it.ex.journal = append(it.ex.journal, undoEntry{fn: func() { ch.buf = old }})
			v := ch.buf[0]
			ch.buf = append([]Value{}, ch.buf[1:]...)
			if commaOk {
				return Tuple{v, tTrue}
			}
			return v
		}
		if ch != nil && ch.closed {
			if commaOk {
				return Tuple{zero(elem), tFalse}
			}
			return zero(elem)
		}
		if !it.blockOn(fr, "chan recv") {
			panic(targetPanic{implicit: "all goroutines are asleep - deadlock! (chan receive)"})
		}
	}
}

func (it *Interp) chanClose(fr *frame, chv Value) {
	it.impure("concurrency")
	ch := chv.(*Chan)
	if ch == nil {
		panic(targetPanic{implicit: "close of nil channel"})
	}
	if ch.closed {
		panic(targetPanic{implicit: "close of closed channel"})
	}
	it.ex.journal = append(it.ex.journal, undoEntry{fn: func() { ch.closed = false }})
	ch.closed = true
}

func (it *Interp) selectStmt(fr *frame, instr *ssa.Select) Value { panic(unsupported("select")) }

// ---- lock logging (C08)

type lockLogger struct{}

func (l *lockLogger) access(fr *frame, p *Value, write bool)         {}
func (l *lockLogger) accessObj(fr *frame, o interface{}, write bool) {}
func (l *lockLogger) lock(fr *frame, p *Value)                       {}
func (l *lockLogger) unlock(fr *frame, p *Value)                     {}

// blockOn parks the current goroutine until another makes progress; returns false if
// no other goroutine can run (deadlock).
func (it *Interp) blockOn(fr *frame, why string) bool { return false }

// yieldPoint is a scheduling point.
func (it *Interp) yieldPoint(fr *frame, why string) {}
