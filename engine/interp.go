package main

import (
	"fmt"
	"go/token"
	"go/types"
	"os"
	"strings"

	"golang.org/x/tools/go/ssa"
)

type continuation int

const (
	kNext continuation = iota
	kReturn
	kJump
)

type deferred struct {
	fn    Value
	args  []Value
	instr *ssa.Defer
	tail  *deferred
}

type frame struct {
	it               *Interp
	caller           *frame
	fn               *ssa.Function
	block, prevBlock *ssa.BasicBlock
	env              map[ssa.Value]Value
	locals           []Value
	defers           *deferred
	result           Value
	panicking        bool
	panic            interface{}
	phitemps         []Value
	callpos          token.Pos
	curInstr         ssa.Instruction
	g                *goroutine
	skipPhis         bool
}

type Interp struct {
	prog    *ssa.Program
	ex      *Explorer
	globals map[*ssa.Global]*Value
	pkgInit map[*ssa.Package]string // "", "ok", "failed: ...", "skipped"
	trace   bool
	sizes   types.Sizes

	curFrame *frame // innermost frame of the running goroutine (for diagnostics)

	stopOnInconclusive        bool
	nonterminationIsViolation bool

	// statistics
	funcsRepo  map[string]int // repo functions interpreted -> instruction count
	funcsStd   map[string]int
	modelsUsed map[string]int
	repoPrefix string
	targetPkg  string // import path of the package under test (harness package)

	// digest universe etc. live in models
	mstate *modelState

	sched *scheduler

	lockLog *lockLogger

	// if-conversion
	specDepth     int
	noMerge       map[*ssa.If]bool
	mergeCache    map[*ssa.Function]*mergeInfo
	condPureCache map[*ssa.BasicBlock]bool
	pureFnCache   map[*ssa.Function]bool
	Merges        int64
	MergeAborts   int64
	disableMerge  bool

	params    map[string]string
	vector    []replayItem // concrete mode (selfcheck)
	vectorPos int
	pinned    bool // vector mode that keeps inputs symbolic but pinned by solver constraints
}

func (it *Interp) stackTrace() []string {
	var out []string
	for fr := it.curFrame; fr != nil && len(out) < 12; fr = fr.caller {
		if fr.fn == nil {
			continue // synthetic root frame of a goroutine
		}
		pos := ""
		if fr.curInstr != nil && fr.curInstr.Pos().IsValid() {
			p := it.prog.Fset.Position(fr.curInstr.Pos())
			pos = fmt.Sprintf(" %s:%d", shortFile(p.Filename), p.Line)
		}
		out = append(out, fr.fn.String()+pos)
	}
	return out
}

func shortFile(f string) string {
	if i := strings.Index(f, "/ociregistry/"); i >= 0 {
		return f[i+1:]
	}
	if i := strings.Index(f, "/src/"); i >= 0 {
		return f[i+5:]
	}
	return f
}

func (it *Interp) panicWhere() string {
	st := it.stackTrace()
	if len(st) == 0 {
		return ""
	}
	if len(st) > 6 {
		st = st[:6]
	}
	return " [at " + strings.Join(st, " <- ") + "]"
}

func (fr *frame) get(key ssa.Value) Value {
	switch key := key.(type) {
	case nil:
		return nil
	case *ssa.Function, *ssa.Builtin:
		return key
	case *ssa.Const:
		return constValue(key)
	case *ssa.Global:
		return fr.it.globalAddr(key)
	}
	if r, ok := fr.env[key]; ok {
		return r
	}
	panic(fmt.Sprintf("get: no value for %T: %v in %s", key, key.Name(), fr.fn))
}

func (it *Interp) globalAddr(g *ssa.Global) *Value {
	if p, ok := it.globals[g]; ok {
		return p
	}
	if g.Pkg != nil {
		st := it.pkgInit[g.Pkg]
		if st != "ok" && st != "running" && !strings.HasPrefix(g.Name(), "init$guard") {
			if v, ok := it.nativeGlobal(g); ok {
				cell := v
				it.globals[g] = &cell
				return &cell
			}
			panic(unsupported(fmt.Sprintf("read of global %s whose package init is %q", g.String(), st)))
		}
	}
	cell := zero(deref(g.Type()))
	it.globals[g] = &cell
	return &cell
}

func (fr *frame) runDefer(d *deferred) {
	var ok bool
	defer func() {
		if !ok {
			r := recover()
			switch r.(type) {
			case targetPanic:
				fr.panicking = true
				fr.panic = r
			default:
				panic(r)
			}
		}
	}()
	fr.it.call(fr, d.instr.Pos(), d.fn, d.args)
	ok = true
}

func (fr *frame) runDefers() {
	for d := fr.defers; d != nil; d = d.tail {
		fr.runDefer(d)
	}
	fr.defers = nil
	if fr.panicking {
		panic(fr.panic)
	}
}

func (it *Interp) lookupMethod(typ types.Type, meth *types.Func) *ssa.Function {
	return it.prog.LookupMethod(typ, meth.Pkg(), meth.Name())
}

func (it *Interp) step() {
	it.ex.steps++
	if it.ex.steps > it.ex.maxSteps {
		panic(stepLimit{})
	}
}

func visitInstr(fr *frame, instr ssa.Instruction) continuation {
	it := fr.it
	fr.curInstr = instr
	it.step()
	switch instr := instr.(type) {
	case *ssa.DebugRef:
	case *ssa.UnOp:
		fr.env[instr] = it.unop(fr, instr, fr.get(instr.X))
	case *ssa.BinOp:
		fr.env[instr] = it.binop(fr, instr.Op, instr.X.Type(), fr.get(instr.X), fr.get(instr.Y))
	case *ssa.Call:
		fn, args := it.prepareCall(fr, &instr.Call)
		fr.env[instr] = it.call(fr, instr.Pos(), fn, args)
		it.curFrame = fr
	case *ssa.ChangeInterface:
		fr.env[instr] = fr.get(instr.X)
	case *ssa.ChangeType:
		fr.env[instr] = fr.get(instr.X)
	case *ssa.Convert:
		fr.env[instr] = it.conv(fr, instr.Type(), instr.X.Type(), fr.get(instr.X))
	case *ssa.SliceToArrayPointer:
		panic(unsupported("SliceToArrayPointer"))
	case *ssa.MakeInterface:
		fr.env[instr] = Iface{t: instr.X.Type(), v: fr.get(instr.X)}
	case *ssa.Extract:
		fr.env[instr] = fr.get(instr.Tuple).(Tuple)[instr.Index]
	case *ssa.Slice:
		fr.env[instr] = it.slice(fr, instr, fr.get(instr.X), fr.get(instr.Low), fr.get(instr.High), fr.get(instr.Max))
	case *ssa.Return:
		switch len(instr.Results) {
		case 0:
		case 1:
			fr.result = fr.get(instr.Results[0])
		default:
			var res []Value
			for _, r := range instr.Results {
				res = append(res, fr.get(r))
			}
			fr.result = Tuple(res)
		}
		fr.block = nil
		return kReturn
	case *ssa.RunDefers:
		fr.runDefers()
	case *ssa.Panic:
		panic(targetPanic{v: fr.get(instr.X)})
	case *ssa.Send:
		it.chanSend(fr, fr.get(instr.Chan), fr.get(instr.X))
	case *ssa.Store:
		it.store(fr, deref(instr.Addr.Type()), fr.get(instr.Addr), fr.get(instr.Val))
	case *ssa.If:
		c := fr.get(instr.Cond).(*Term)
		if !c.isConst() {
			switch it.ex.evalBool(c, 8) {
			case 1:
				c = tTrue
			case 0:
				c = tFalse
			}
		}
		if !c.isConst() {
			switch it.tryMerge(fr, instr, c) {
			case mergeJoin:
				return kJump
			case mergeReturn:
				return kReturn
			}
		}
		succ := 1
		if c.isConst() {
			if c.cv != 0 {
				succ = 0
			}
		} else if it.ex.branch(c) {
			succ = 0
		}
		fr.prevBlock, fr.block = fr.block, fr.block.Succs[succ]
		return kJump
	case *ssa.Jump:
		fr.prevBlock, fr.block = fr.block, fr.block.Succs[0]
		return kJump
	case *ssa.Defer:
		fn, args := it.prepareCall(fr, &instr.Call)
		fr.defers = &deferred{fn: fn, args: args, instr: instr, tail: fr.defers}
	case *ssa.Go:
		fn, args := it.prepareCall(fr, &instr.Call)
		it.goStart(fr, instr, fn, args)
	case *ssa.MakeChan:
		fr.env[instr] = it.makeChan(fr, fr.get(instr.Size))
	case *ssa.Alloc:
		var addr *Value
		if instr.Heap {
			addr = new(Value)
			fr.env[instr] = addr
		} else {
			addr = fr.env[instr].(*Value)
		}
		*addr = zero(deref(instr.Type()))
	case *ssa.MakeSlice:
		n := it.concreteInt(fr.get(instr.Len), "make length")
		c := it.concreteInt(fr.get(instr.Cap), "make capacity")
		if n < 0 || c < n {
			panic(targetPanic{implicit: "makeslice: len out of range"})
		}
		if c > 1<<22 {
			panic(unsupported(fmt.Sprintf("make of %d elements", c)))
		}
		tElt := instr.Type().Underlying().(*types.Slice).Elem()
		s := make([]Value, c)
		for i := range s {
			s[i] = zero(tElt)
		}
		fr.env[instr] = Slice{a: s[:n]}
	case *ssa.MakeMap:
		fr.env[instr] = newMap(instr.Type().Underlying().(*types.Map))
	case *ssa.Range:
		fr.env[instr] = it.rangeIter(fr, fr.get(instr.X), instr.X.Type())
	case *ssa.Next:
		fr.env[instr] = fr.get(instr.Iter).(iterator).next(fr)
	case *ssa.FieldAddr:
		p := it.derefPtr(fr, fr.get(instr.X))
		fr.env[instr] = &(*p).(Struct)[instr.Field]
	case *ssa.Field:
		fr.env[instr] = fr.get(instr.X).(Struct)[instr.Field]
	case *ssa.IndexAddr:
		fr.env[instr] = it.indexAddr(fr, instr, fr.get(instr.X), fr.get(instr.Index))
	case *ssa.Index:
		fr.env[instr] = it.index(fr, instr, fr.get(instr.X), fr.get(instr.Index))
	case *ssa.Lookup:
		fr.env[instr] = it.lookup(fr, instr, fr.get(instr.X), fr.get(instr.Index))
	case *ssa.MapUpdate:
		m := it.resolveNil(fr, fr.get(instr.Map)).(*Map)
		if m == nil {
			panic(targetPanic{implicit: "assignment to entry in nil map"})
		}
		it.mapUpdate(fr, m, fr.get(instr.Key), fr.get(instr.Value))
	case *ssa.TypeAssert:
		fr.env[instr] = it.typeAssert(fr, instr, fr.get(instr.X))
	case *ssa.MakeClosure:
		var bindings []Value
		for _, b := range instr.Bindings {
			bindings = append(bindings, fr.get(b))
		}
		fr.env[instr] = &Closure{instr.Fn.(*ssa.Function), bindings}
	case *ssa.Phi:
		panic("unreachable: phi")
	case *ssa.Select:
		fr.env[instr] = it.selectStmt(fr, instr)
	default:
		panic(unsupported(fmt.Sprintf("instruction %T", instr)))
	}
	return kNext
}

func (it *Interp) ifCond(fr *frame, instr *ssa.If) bool {
	c := fr.get(instr.Cond).(*Term)
	if c.isConst() {
		return c.cv != 0
	}
	return it.ex.branch(c)
}

func (it *Interp) prepareCall(fr *frame, call *ssa.CallCommon) (fn Value, args []Value) {
	v := fr.get(call.Value)
	if call.Method == nil {
		fn = v
	} else {
		v = it.resolveNil(fr, v)
		recv := v.(Iface)
		if recv.t == nil {
			panic(targetPanic{implicit: "invalid memory address or nil pointer dereference (method " + call.Method.Name() + " invoked on nil interface)"})
		}
		if nf, ok := recv.v.(*nativeObj); ok {
			m := nf.method(call.Method.Name())
			if m == nil {
				panic(unsupported("native object has no method " + call.Method.Name()))
			}
			fn = m
		} else if f := it.lookupMethod(recv.t, call.Method); f == nil {
			panic(fmt.Sprintf("method set for dynamic type %v does not contain %s", recv.t, call.Method))
		} else {
			fn = f
			args = append(args, recv.v)
		}
	}
	for _, a := range call.Args {
		args = append(args, fr.get(a))
	}
	return
}

func (it *Interp) call(caller *frame, callpos token.Pos, fn Value, args []Value) Value {
	fn = it.resolveNil(caller, fn)
	switch fn := fn.(type) {
	case *ssa.Function:
		if fn == nil {
			panic(targetPanic{implicit: "invalid memory address or nil pointer dereference (call of nil func)"})
		}
		return it.callSSA(caller, callpos, fn, args, nil)
	case *Closure:
		return it.callSSA(caller, callpos, fn.Fn, args, fn.Env)
	case *ssa.Builtin:
		return it.callBuiltin(caller, callpos, fn, args)
	case *Native:
		return fn.fn(caller, args)
	}
	panic(fmt.Sprintf("cannot call %T", fn))
}

// callBody interprets fn's SSA body, bypassing the model table.
func (it *Interp) callBody(caller *frame, fn *ssa.Function, args []Value) Value {
	return it.callSSA2(caller, 0, fn, args, nil, true)
}

func (it *Interp) callSSA(caller *frame, callpos token.Pos, fn *ssa.Function, args []Value, env []Value) Value {
	return it.callSSA2(caller, callpos, fn, args, env, false)
}

func (it *Interp) callSSA2(caller *frame, callpos token.Pos, fn *ssa.Function, args []Value, env []Value, noModel bool) Value {
	fr := &frame{it: it, caller: caller, fn: fn, callpos: callpos}
	if caller != nil {
		fr.g = caller.g
	}
	if fn.Parent() == nil && !noModel {
		if res, handled := it.callModel(fr, fn, args); handled {
			return res
		}
	}
	if fn.Blocks == nil {
		panic(unsupported("no code for function: " + fn.String()))
	}
	if fn.TypeParams().Len() > 0 && len(fn.TypeArgs()) == 0 {
		panic(unsupported("generic function body (not instantiated): " + fn.String()))
	}
	if it.trace {
		fmt.Fprintf(os.Stderr, "%*sEntering %s\n", it.depth(fr), "", fn)
	}
	it.countFunc(fn)
	it.curFrame = fr
	fr.env = make(map[ssa.Value]Value, 16)
	fr.block = fn.Blocks[0]
	fr.locals = make([]Value, len(fn.Locals))
	for i, l := range fn.Locals {
		fr.locals[i] = zero(deref(l.Type()))
		fr.env[l] = &fr.locals[i]
	}
	for i, p := range fn.Params {
		fr.env[p] = args[i]
	}
	for i, fv := range fn.FreeVars {
		fr.env[fv] = env[i]
	}
	for fr.block != nil {
		runFrame(fr)
	}
	it.curFrame = caller
	return fr.result
}

func (it *Interp) depth(fr *frame) int {
	d := 0
	for f := fr; f != nil; f = f.caller {
		d++
	}
	return d
}

func (it *Interp) countFunc(fn *ssa.Function) {
	if name, ok := fnNameCache[fn]; ok {
		if fnIsRepoCache[fn] {
			it.funcsRepo[name]++
		} else {
			it.funcsStd[name]++
		}
		return
	}
	name := fn.String()
	fnNameCache[fn] = name
	pkg := fn.Package()
	if pkg == nil && fn.Origin() != nil {
		pkg = fn.Origin().Package()
	}
	if pkg == nil && fn.Parent() != nil {
		pkg = fn.Parent().Package()
	}
	if pkg != nil && strings.HasPrefix(pkg.Pkg.Path(), it.repoPrefix) {
		fnIsRepoCache[fn] = true
		it.funcsRepo[name]++
	} else {
		it.funcsStd[name]++
	}
}

// runFrame executes instructions until return; on a target panic it runs the deferred
// calls and propagates (recover() is supported as in go/ssa/interp).
func runFrame(fr *frame) {
	defer func() {
		if fr.block == nil {
			return // normal return
		}
		r := recover()
		if _, ok := r.(targetPanic); !ok {
			panic(r) // engine-level unwinding: pathEnd, unsupported, ...
		}
		fr.panicking = true
		fr.panic = r
		fr.runDefers()
		fr.block = fr.fn.Recover
		if fr.block == nil {
			// recovered in a function without named results: return zero
			fr.result = zero(fr.fn.Signature.Results())
			if fr.fn.Signature.Results().Len() == 0 {
				fr.result = nil
			}
		}
	}()
	for {
		nonPhis := executePhis(fr)
		for _, instr := range nonPhis {
			if fr.it.trace {
				if v, ok := instr.(ssa.Value); ok {
					fmt.Fprintf(os.Stderr, "%*s%s = %s\n", fr.it.depth(fr), "", v.Name(), instr)
				} else {
					fmt.Fprintf(os.Stderr, "%*s%s\n", fr.it.depth(fr), "", instr)
				}
			}
			if visitInstr(fr, instr) == kReturn {
				return
			}
			if fr.it.trace {
				if v, ok := instr.(ssa.Value); ok {
					fmt.Fprintf(os.Stderr, "%*s  -> %s\n", fr.it.depth(fr), "", toString(fr.env[v]))
				}
			}
		}
	}
}

func executePhis(fr *frame) []ssa.Instruction {
	firstNonPhi := -1
	for i, instr := range fr.block.Instrs {
		if _, ok := instr.(*ssa.Phi); !ok {
			firstNonPhi = i
			break
		}
	}
	nonPhis := fr.block.Instrs[firstNonPhi:]
	if fr.skipPhis {
		fr.skipPhis = false
		return nonPhis
	}
	if firstNonPhi > 0 {
		phis := fr.block.Instrs[:firstNonPhi]
		predIndex := -1
		for i, p := range fr.block.Preds {
			if p == fr.prevBlock {
				predIndex = i
				break
			}
		}
		fr.phitemps = fr.phitemps[:0]
		for _, phi := range phis {
			fr.phitemps = append(fr.phitemps, fr.get(phi.(*ssa.Phi).Edges[predIndex]))
		}
		for i, phi := range phis {
			fr.env[phi.(*ssa.Phi)] = fr.phitemps[i]
		}
	}
	return nonPhis
}

func doRecover(caller *frame) Value {
	if caller != nil && !caller.panicking && caller.caller != nil && caller.caller.panicking {
		caller.caller.panicking = false
		p := caller.caller.panic
		caller.caller.panic = nil
		switch p := p.(type) {
		case targetPanic:
			if p.implicit != "" {
				return Iface{t: types.Universe.Lookup("string").Type(), v: mkStr("runtime error: " + p.implicit)}
			}
			return p.v
		}
	}
	return Iface{}
}

// runPackageInit runs the synthetic package initializer of pkg under the
// failure-isolation policy: an unsupported operation marks the package as failed.
func (it *Interp) runPackageInit(caller *frame, fn *ssa.Function) {
	pkg := fn.Pkg
	if st := it.pkgInit[pkg]; st != "" {
		return
	}
	path := pkg.Pkg.Path()
	if skipInit(path) {
		it.pkgInit[pkg] = "skipped"
		return
	}
	it.pkgInit[pkg] = "running"
	func() {
		defer func() {
			if r := recover(); r != nil {
				switch r := r.(type) {
				case unsupportedErr:
					it.pkgInit[pkg] = "failed: " + r.msg + it.panicWhere()
				case targetPanic:
					it.pkgInit[pkg] = "failed: panic " + r.String() + it.panicWhere()
				case stepLimit:
					it.pkgInit[pkg] = "failed: step limit"
				default:
					if s, ok := r.(string); ok {
						it.pkgInit[pkg] = "failed: engine: " + s + it.panicWhere()
						return
					}
					if e, ok := r.(error); ok {
						it.pkgInit[pkg] = "failed: engine: " + e.Error() + it.panicWhere()
						return
					}
					panic(r)
				}
			}
		}()
		saved := it.curFrame
		it.callInterpreted(caller, fn)
		it.curFrame = saved
		it.pkgInit[pkg] = "ok"
	}()
}

// callInterpreted runs fn's SSA body bypassing the model table.
func (it *Interp) callInterpreted(caller *frame, fn *ssa.Function) Value {
	fr := &frame{it: it, caller: caller, fn: fn}
	it.curFrame = fr
	fr.env = make(map[ssa.Value]Value, 16)
	fr.block = fn.Blocks[0]
	fr.locals = make([]Value, len(fn.Locals))
	for i, l := range fn.Locals {
		fr.locals[i] = zero(deref(l.Type()))
		fr.env[l] = &fr.locals[i]
	}
	for fr.block != nil {
		runFrame(fr)
	}
	return fr.result
}

func skipInit(path string) bool {
	switch path {
	case "runtime", "syscall", "os", "reflect", "unsafe", "sync", "sync/atomic", "net", "os/exec", "os/signal",
		"internal/poll", "internal/cpu", "crypto/tls", "crypto/x509", "log", "testing", "flag", "net/http/httptrace",
		"internal/godebug", "internal/reflectlite", "math/rand", "math/rand/v2", "crypto/rand", "os/user", "io/ioutil",
		"compress/flate", "compress/gzip", "math/big", "encoding/json", "text/template", "html/template",
		"runtime/debug", "runtime/trace", "runtime/pprof", "internal/testlog", "internal/bisect", "hash/crc32", "regexp", "regexp/syntax",
		"golang.org/x/sys/unix", "internal/abi", "internal/bytealg", "internal/runtime/atomic", "log/slog", "log/internal",
		"encoding/asn1", "crypto/ecdsa", "crypto/elliptic", "crypto/rsa", "crypto/ed25519", "crypto/internal/nistec",
		"vendor/golang.org/x/net/http2/hpack", "vendor/golang.org/x/net/idna", "vendor/golang.org/x/text/unicode/norm",
		"vendor/golang.org/x/text/unicode/bidi", "unicode", "mime/multipart",
		"net/netip", "internal/nettrace", "internal/singleflight", "internal/intern", "unique", "weak":
		return true
	}
	for _, p := range []string{"runtime/", "internal/runtime/", "internal/syscall/", "crypto/internal/", "vendor/golang.org/x/crypto/", "vendor/golang.org/x/text/", "vendor/golang.org/x/sys/", "crypto/", "github.com/go-quicktest/", "github.com/google/go-cmp/", "github.com/kr/", "testing/"} {
		if strings.HasPrefix(path, p) {
			return true
		}
	}
	return false
}
