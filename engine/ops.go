package main

import (
	"fmt"
	"go/constant"
	"go/token"
	"go/types"
	"math"
	"unicode/utf8"

	"golang.org/x/tools/go/ssa"
)

func constValue(c *ssa.Const) Value {
	if c.Value == nil {
		return zero(c.Type())
	}
	t := c.Type()
	if tp, ok := t.(*types.TypeParam); ok {
		_ = tp
		panic(unsupported("constant of type parameter type"))
	}
	if b, ok := t.Underlying().(*types.Basic); ok {
		switch {
		case b.Info()&types.IsBoolean != 0:
			return mkBool(constant.BoolVal(c.Value))
		case b.Info()&types.IsString != 0:
			if c.Value.Kind() == constant.String {
				return mkStr(constant.StringVal(c.Value))
			}
			return mkStr(string(rune(c.Int64())))
		case b.Info()&types.IsFloat != 0:
			return c.Float64()
		case b.Info()&types.IsComplex != 0:
			return c.Complex128()
		case b.Kind() == types.UnsafePointer:
			return (*Value)(nil)
		}
		w, signed, ok := intWidth(b)
		if ok {
			if signed {
				return mkBV(w, uint64(c.Int64()))
			}
			return mkBV(w, c.Uint64())
		}
	}
	panic(fmt.Sprintf("constValue: %s", c))
}

func (it *Interp) concreteInt(v Value, what string) int64 {
	t := v.(*Term)
	if t.isConst() {
		return t.sval()
	}
	return it.ex.concretize(t, what)
}

func asTerm(v Value) *Term {
	t, ok := v.(*Term)
	if !ok {
		panic(fmt.Sprintf("expected scalar term, got %T", v))
	}
	return t
}

// resolveNil forks on the nil-ness of a MaybeNil value and returns the plain value.
func (it *Interp) resolveNil(fr *frame, v Value) Value {
	mn, ok := v.(MaybeNil)
	if !ok {
		return v
	}
	if it.ex.branch(mn.isNil) {
		return zero(mn.t)
	}
	return mn.v
}

func (it *Interp) derefPtr(fr *frame, v Value) *Value {
	v = it.resolveNil(fr, v)
	p, ok := v.(*Value)
	if !ok {
		panic(fmt.Sprintf("derefPtr: %T", v))
	}
	if p == nil {
		panic(targetPanic{implicit: "invalid memory address or nil pointer dereference"})
	}
	return p
}

// ---- load / store

func (it *Interp) load(fr *frame, T types.Type, addr Value) Value {
	switch a := addr.(type) {
	case *symElemPtr:
		return a.load(it)
	}
	p := it.derefPtr(fr, addr)
	if it.lockLog != nil {
		it.lockLog.access(fr, p, false)
	}
	return copyVal(*p)
}

func (it *Interp) store(fr *frame, T types.Type, addr Value, v Value) {
	switch a := addr.(type) {
	case *symElemPtr:
		a.store(it, v)
		return
	}
	p := it.derefPtr(fr, addr)
	if it.lockLog != nil {
		it.lockLog.access(fr, p, true)
	}
	it.storeAt(p, v)
}

// impure aborts an enclosing speculative (if-conversion) evaluation.
func (it *Interp) impure(why string) {
	if it.specDepth > 0 {
		panic(specAbort{why, true})
	}
}

func (it *Interp) storeAt(p *Value, v Value) {
	it.impure("store")
	switch v := v.(type) {
	case Struct:
		dst, ok := (*p).(Struct)
		if !ok || len(dst) != len(v) {
			it.ex.journal = append(it.ex.journal, undoEntry{p: p, old: *p})
			*p = copyVal(v)
			return
		}
		for i := range v {
			it.storeAt(&dst[i], v[i])
		}
	case Array:
		dst, ok := (*p).(Array)
		if !ok || len(dst) != len(v) {
			it.ex.journal = append(it.ex.journal, undoEntry{p: p, old: *p})
			*p = copyVal(v)
			return
		}
		for i := range v {
			it.storeAt(&dst[i], v[i])
		}
	default:
		it.ex.journal = append(it.ex.journal, undoEntry{p: p, old: *p})
		*p = v
	}
}

// symElemPtr is the address of slice/array element at a symbolic index.
type symElemPtr struct {
	elems []Value
	idx   *Term // 64-bit
}

func (p *symElemPtr) load(it *Interp) Value {
	// restrict to the index range implied by the path's variable bounds
	lo, hi := 0, len(p.elems)-1
	if iv := it.ex.evalIv(p.idx, 8); iv.ok {
		if int64(iv.lo) > int64(lo) && iv.lo < uint64(len(p.elems)) {
			lo = int(iv.lo)
		}
		if iv.hi < uint64(hi) {
			hi = int(iv.hi)
		}
	}
	// constant tables: run-length compression into runs that are constant or +1
	// progressions, so that a 256-entry lookup becomes a handful of range tests
	allConst := true
	var w Sort
	for i := lo; i <= hi; i++ {
		e, ok := p.elems[i].(*Term)
		if !ok || !e.isConst() || e.sort <= 0 {
			allConst = false
			break
		}
		w = e.sort
	}
	if allConst && hi-lo >= 4 {
		type run struct {
			a, b int
			step uint64
		}
		var runs []run
		i := lo
		for i <= hi {
			j := i
			step := uint64(0)
			if j+1 <= hi {
				d := (p.elems[j+1].(*Term).cv - p.elems[j].(*Term).cv) & mask(w)
				if d == 0 || d == 1 {
					step = d
					for j+1 <= hi && (p.elems[j+1].(*Term).cv-p.elems[j].(*Term).cv)&mask(w) == step {
						j++
					}
				}
			}
			runs = append(runs, run{i, j, step})
			i = j + 1
		}
		if len(runs) <= 40 {
			idxW := p.idx
			var low *Term
			if int(w) <= 64 {
				low = bvExtract(idxW, int(w)-1, 0)
			}
			var res *Term
			for k := len(runs) - 1; k >= 0; k-- {
				r := runs[k]
				var v *Term
				base := p.elems[r.a].(*Term).cv
				if r.step == 0 {
					v = mkBV(int(w), base)
				} else {
					v = bvBin("bvadd", low, mkBV(int(w), base-uint64(r.a)))
				}
				if res == nil {
					res = v
				} else {
					res = mkIte(bvCmp("bvule", idxW, mkBV(64, uint64(r.b))), v, res)
				}
			}
			return res
		}
	}
	// ite chain over same-sorted scalar elements
	var res *Term
	for i := hi; i >= lo; i-- {
		e, ok := p.elems[i].(*Term)
		if !ok {
			panic(unsupported("symbolic index into non-scalar elements"))
		}
		if res == nil {
			res = e
		} else {
			res = mkIte(mkEq(p.idx, mkBV(64, uint64(i))), e, res)
		}
	}
	return res
}

func (p *symElemPtr) store(it *Interp, v Value) {
	nv, ok := v.(*Term)
	if !ok {
		panic(unsupported("symbolic-index store of non-scalar"))
	}
	for i := range p.elems {
		old := p.elems[i].(*Term)
		it.storeAt(&p.elems[i], mkIte(mkEq(p.idx, mkBV(64, uint64(i))), nv, old))
	}
}

func (it *Interp) boundsCheck(idx *Term, n int, what string) {
	inb := mkAnd(bvCmp("bvsge", idx, mkBV(64, 0)), bvCmp("bvslt", idx, mkBV(64, uint64(n))))
	if !it.ex.branch(inb) {
		panic(targetPanic{implicit: fmt.Sprintf("index out of range [symbolic] with length %d (%s)", n, what)})
	}
}

func to64(t *Term, signed bool) *Term {
	if int(t.sort) == 64 {
		return t
	}
	if signed {
		return bvSext(t, 64)
	}
	return bvZext(t, 64)
}

func idxTerm(v Value, T types.Type) *Term {
	t := v.(*Term)
	_, signed, _ := intWidth(T)
	return to64(t, signed)
}

func (it *Interp) indexAddr(fr *frame, instr *ssa.IndexAddr, x, idx Value) Value {
	i := idxTerm(idx, instr.Index.Type())
	var elems []Value
	switch x := x.(type) {
	case Slice:
		elems = x.a
	case *Value:
		if x == nil {
			panic(targetPanic{implicit: "invalid memory address or nil pointer dereference"})
		}
		elems = (*x).(Array)
	case MaybeNil:
		return it.indexAddr(fr, instr, it.resolveNil(fr, x), idx)
	default:
		panic(fmt.Sprintf("indexAddr: %T", x))
	}
	if i.isConst() {
		k := i.sval()
		if k < 0 || k >= int64(len(elems)) {
			panic(targetPanic{implicit: fmt.Sprintf("index out of range [%d] with length %d", k, len(elems))})
		}
		return &elems[k]
	}
	it.boundsCheck(i, len(elems), "IndexAddr")
	if len(elems) == 1 {
		return &elems[0]
	}
	scalar := true
	for _, e := range elems {
		if _, ok := e.(*Term); !ok {
			scalar = false
			break
		}
	}
	if scalar && len(elems) <= 512 {
		return &symElemPtr{elems: elems, idx: i}
	}
	k := it.ex.concretizeRange(i, 0, int64(len(elems))-1, "index")
	return &elems[k]
}

func (it *Interp) index(fr *frame, instr *ssa.Index, x, idx Value) Value {
	i := idxTerm(idx, instr.Index.Type())
	switch x := x.(type) {
	case Array:
		if i.isConst() {
			k := i.sval()
			if k < 0 || k >= int64(len(x)) {
				panic(targetPanic{implicit: fmt.Sprintf("index out of range [%d] with length %d", k, len(x))})
			}
			return x[k]
		}
		it.boundsCheck(i, len(x), "Index")
		return (&symElemPtr{elems: x, idx: i}).load(it)
	case Str:
		n := x.Len()
		if i.isConst() {
			k := i.sval()
			if k < 0 || k >= int64(n) {
				panic(targetPanic{implicit: fmt.Sprintf("index out of range [%d] with length %d", k, n)})
			}
			return x.byteAt(int(k))
		}
		it.boundsCheck(i, n, "string index")
		var res *Term
		for k := n - 1; k >= 0; k-- {
			if res == nil {
				res = x.byteAt(k)
			} else {
				res = mkIte(mkEq(i, mkBV(64, uint64(k))), x.byteAt(k), res)
			}
		}
		return res
	}
	panic(fmt.Sprintf("index: %T", x))
}

func (it *Interp) slice(fr *frame, instr *ssa.Slice, x, lo, hi, max Value) Value {
	var Len, Cap int
	switch x := x.(type) {
	case Str:
		Len = x.Len()
		Cap = Len
	case Slice:
		Len = len(x.a)
		Cap = cap(x.a)
	case *Value:
		if x == nil {
			panic(targetPanic{implicit: "invalid memory address or nil pointer dereference"})
		}
		a := (*x).(Array)
		Len = len(a)
		Cap = Len
	default:
		panic(fmt.Sprintf("slice: %T", x))
	}
	// Go checks 0 <= lo <= hi <= max <= cap. Symbolic bounds are concretised after
	// a solver-decided range check.
	bound := func(v Value, dflt int, T func() types.Type) *Term {
		if v == nil {
			return mkBV(64, uint64(dflt))
		}
		_, signed, _ := intWidth(T())
		return to64(v.(*Term), signed)
	}
	l := bound(lo, 0, func() types.Type { return instr.Low.Type() })
	h := bound(hi, Len, func() types.Type { return instr.High.Type() })
	m := bound(max, Cap, func() types.Type { return instr.Max.Type() })
	if _, isStr := x.(Str); isStr {
		m = mkBV(64, uint64(Len))
	}
	ok := mkAnd(bvCmp("bvsle", mkBV(64, 0), l), bvCmp("bvsle", l, h), bvCmp("bvsle", h, m), bvCmp("bvsle", m, mkBV(64, uint64(Cap))))
	if !it.ex.branch(ok) {
		panic(targetPanic{implicit: fmt.Sprintf("slice bounds out of range [%s:%s] with capacity %d", toString(l), toString(h), Cap)})
	}
	li := int(it.ex.concretizeRange(l, 0, int64(Cap), "slice bound"))
	hi2 := int(it.ex.concretizeRange(h, int64(li), int64(Cap), "slice bound"))
	mi := int(it.ex.concretizeRange(m, int64(hi2), int64(Cap), "slice bound"))
	switch x := x.(type) {
	case Str:
		return x.slice(li, hi2)
	case Slice:
		if x.a == nil {
			return Slice{}
		}
		return Slice{a: x.a[li:hi2:mi]}
	case *Value:
		a := (*x).(Array)
		return Slice{a: []Value(a)[li:hi2:mi]}
	}
	panic("unreachable")
}

// ---- string comparison

func strEq(a, b Str) *Term {
	if a.atom != nil || b.atom != nil {
		panic("strEq on atoms must go through Interp.strEqV")
	}
	if a.Len() != b.Len() {
		return tFalse
	}
	if a.isConcrete() && b.isConcrete() {
		return mkBool(a.s == b.s)
	}
	var cs []*Term
	for i := 0; i < a.Len(); i++ {
		cs = append(cs, mkEq(a.byteAt(i), b.byteAt(i)))
	}
	return mkAnd(cs...)
}

// strLess builds the lexicographic a < b term.
func strLess(a, b Str) *Term {
	if a.isConcrete() && b.isConcrete() {
		return mkBool(a.s < b.s)
	}
	n := a.Len()
	if b.Len() < n {
		n = b.Len()
	}
	// from the end: res = (len(a) < len(b)) if all common bytes equal
	res := mkBool(a.Len() < b.Len())
	for i := n - 1; i >= 0; i-- {
		x, y := a.byteAt(i), b.byteAt(i)
		res = mkIte(bvCmp("bvult", x, y), tTrue, mkIte(bvCmp("bvugt", x, y), tFalse, res))
	}
	return res
}

func (it *Interp) strEqV(a, b Str) *Term {
	a, b = a.force(), b.force()
	if a.atom != nil || b.atom != nil {
		ra, rb := it.rankOf(a), it.rankOf(b)
		return mkEq(ra, rb)
	}
	return strEq(a, b)
}

func (it *Interp) strLessV(a, b Str) *Term {
	a, b = a.force(), b.force()
	if a.atom != nil || b.atom != nil {
		return bvCmp("bvult", it.rankOf(a), it.rankOf(b))
	}
	return strLess(a, b)
}

// ---- equality of arbitrary values as a Bool term

func (it *Interp) equalsTerm(fr *frame, t types.Type, x, y Value) *Term {
	switch xv := x.(type) {
	case MaybeNil:
		// comparison with nil gives the nil-ness term; otherwise resolve
		if isNilValue(y) {
			return xv.isNil
		}
		return it.equalsTerm(fr, t, it.resolveNil(fr, x), y)
	}
	if _, ok := y.(MaybeNil); ok {
		return it.equalsTerm(fr, t, y, x)
	}
	switch x := x.(type) {
	case *Term:
		return mkEq(x, y.(*Term))
	case Str:
		return it.strEqV(x, y.(Str))
	case float64:
		return mkBool(x == y.(float64))
	case *Value:
		return mkBool(x == y.(*Value))
	case *symElemPtr:
		panic(unsupported("comparison of symbolic element pointers"))
	case *Map:
		return mkBool(x == y.(*Map))
	case *Chan:
		return mkBool(x == y.(*Chan))
	case Struct:
		ys := y.(Struct)
		st := t.Underlying().(*types.Struct)
		var cs []*Term
		for i := range x {
			if st.Field(i).Name() == "_" {
				continue
			}
			cs = append(cs, it.equalsTerm(fr, st.Field(i).Type(), x[i], ys[i]))
		}
		return mkAnd(cs...)
	case Array:
		ya := y.(Array)
		et := t.Underlying().(*types.Array).Elem()
		var cs []*Term
		for i := range x {
			cs = append(cs, it.equalsTerm(fr, et, x[i], ya[i]))
		}
		return mkAnd(cs...)
	case Iface:
		yi := y.(Iface)
		if x.t == nil || yi.t == nil {
			return mkBool(x.t == nil && yi.t == nil)
		}
		if !types.Identical(x.t, yi.t) {
			return tFalse
		}
		if !types.Comparable(x.t) {
			panic(targetPanic{implicit: "comparing uncomparable type " + x.t.String()})
		}
		return it.equalsTerm(fr, x.t, x.v, yi.v)
	case Slice:
		// only slice == nil
		if ys, ok := y.(Slice); ok {
			if ys.a == nil {
				return mkBool(x.a == nil)
			}
			if x.a == nil {
				return mkBool(ys.a == nil)
			}
		}
		panic("slice comparison")
	case *ssa.Function:
		switch y := y.(type) {
		case *ssa.Function:
			return mkBool(x == y)
		default:
			if x == nil {
				return tFalse
			}
		}
		return mkBool(false)
	case *Closure:
		if f, ok := y.(*ssa.Function); ok && f == nil {
			return tFalse
		}
		if c, ok := y.(*Closure); ok {
			return mkBool(x == c)
		}
		return tFalse
	case *Native:
		if f, ok := y.(*ssa.Function); ok && f == nil {
			return tFalse
		}
		return mkBool(x == y)
	case *nativeObj:
		return mkBool(x == y)
	}
	panic(fmt.Sprintf("equalsTerm: unhandled %T vs %T (type %v)", x, y, t))
}

func isNilValue(v Value) bool {
	switch v := v.(type) {
	case *Value:
		return v == nil
	case *ssa.Function:
		return v == nil
	case Iface:
		return v.t == nil
	case *Map:
		return v == nil
	case Slice:
		return v.a == nil
	case *Chan:
		return v == nil
	}
	return false
}

// ---- binary operators

func (it *Interp) binop(fr *frame, op token.Token, t types.Type, x, y Value) Value {
	switch op {
	case token.EQL:
		return it.equalsTerm(fr, t, x, y)
	case token.NEQ:
		return mkNot(it.equalsTerm(fr, t, x, y))
	}
	switch xv := x.(type) {
	case Str:
		yv := y.(Str)
		switch op {
		case token.ADD:
			return strConcat(xv, yv)
		case token.LSS:
			return it.strLessV(xv, yv)
		case token.GTR:
			return it.strLessV(yv, xv)
		case token.LEQ:
			return mkNot(it.strLessV(yv, xv))
		case token.GEQ:
			return mkNot(it.strLessV(xv, yv))
		}
	case float64:
		yv := y.(float64)
		switch op {
		case token.ADD:
			return xv + yv
		case token.SUB:
			return xv - yv
		case token.MUL:
			return xv * yv
		case token.QUO:
			return xv / yv
		case token.LSS:
			return mkBool(xv < yv)
		case token.LEQ:
			return mkBool(xv <= yv)
		case token.GTR:
			return mkBool(xv > yv)
		case token.GEQ:
			return mkBool(xv >= yv)
		}
	case *Term:
		yv := y.(*Term)
		if xv.sort == SBool {
			switch op {
			case token.LAND, token.AND:
				return mkAnd(xv, yv)
			case token.LOR, token.OR:
				return mkOr(xv, yv)
			}
			break
		}
		w, signed, ok := intWidth(t)
		if !ok {
			// shifts carry the type of X in t; fall back to sort
			w = int(xv.sort)
			signed = true
		}
		switch op {
		case token.ADD:
			return bvBin("bvadd", xv, yv)
		case token.SUB:
			return bvBin("bvsub", xv, yv)
		case token.MUL:
			return bvBin("bvmul", xv, yv)
		case token.QUO, token.REM:
			if yv.isConst() {
				if yv.cv == 0 {
					panic(targetPanic{implicit: "integer divide by zero"})
				}
			} else {
				if it.ex.branch(mkEq(yv, mkBV(w, 0))) {
					panic(targetPanic{implicit: "integer divide by zero"})
				}
			}
			if !xv.isConst() && yv.isConst() && !signed {
				if k, pow2 := log2u(yv.cv); pow2 {
					if op == token.QUO {
						return bvBin("bvlshr", xv, mkBV(w, uint64(k)))
					}
					return bvBin("bvand", xv, mkBV(w, yv.cv-1))
				}
			}
			name := map[bool]map[token.Token]string{true: {token.QUO: "bvsdiv", token.REM: "bvsrem"}, false: {token.QUO: "bvudiv", token.REM: "bvurem"}}[signed][op]
			return bvBin(name, xv, yv)
		case token.AND:
			return bvBin("bvand", xv, yv)
		case token.OR:
			return bvBin("bvor", xv, yv)
		case token.XOR:
			return bvBin("bvxor", xv, yv)
		case token.AND_NOT:
			return bvBin("bvand", xv, bvNot(yv))
		case token.SHL, token.SHR:
			return shiftOp(op, xv, yv, w, signed)
		case token.LSS:
			if signed {
				return bvCmp("bvslt", xv, yv)
			}
			return bvCmp("bvult", xv, yv)
		case token.LEQ:
			if signed {
				return bvCmp("bvsle", xv, yv)
			}
			return bvCmp("bvule", xv, yv)
		case token.GTR:
			if signed {
				return bvCmp("bvsgt", xv, yv)
			}
			return bvCmp("bvugt", xv, yv)
		case token.GEQ:
			if signed {
				return bvCmp("bvsge", xv, yv)
			}
			return bvCmp("bvuge", xv, yv)
		}
	case complex128:
		panic(unsupported("complex arithmetic"))
	}
	panic(fmt.Sprintf("binop: %s on %T,%T (type %v)", op, x, y, t))
}

func shiftOp(op token.Token, x, y *Term, w int, signed bool) *Term {
	// y is unsigned (or a non-negative signed) of possibly different width
	yw := int(y.sort)
	var amt *Term
	var tooBig *Term
	if yw == w {
		amt = y
		tooBig = bvCmp("bvuge", y, mkBV(w, uint64(w)))
	} else if yw < w {
		amt = bvZext(y, w)
		tooBig = bvCmp("bvuge", amt, mkBV(w, uint64(w)))
	} else {
		amt = bvExtract(y, w-1, 0)
		tooBig = bvCmp("bvuge", y, mkBV(yw, uint64(w)))
	}
	var r, over *Term
	if op == token.SHL {
		r = bvBin("bvshl", x, amt)
		over = mkBV(w, 0)
	} else if signed {
		r = bvBin("bvashr", x, amt)
		over = bvBin("bvashr", x, mkBV(w, uint64(w-1)))
	} else {
		r = bvBin("bvlshr", x, amt)
		over = mkBV(w, 0)
	}
	return mkIte(tooBig, over, r)
}

// ---- unary operators

func (it *Interp) unop(fr *frame, instr *ssa.UnOp, x Value) Value {
	switch instr.Op {
	case token.MUL:
		return it.load(fr, deref(instr.X.Type()), x)
	case token.ARROW:
		return it.chanRecv(fr, x, instr.CommaOk, instr.X.Type().Underlying().(*types.Chan).Elem())
	case token.NOT:
		return mkNot(x.(*Term))
	case token.SUB:
		switch x := x.(type) {
		case *Term:
			return bvNeg(x)
		case float64:
			return -x
		}
	case token.XOR:
		return bvNot(x.(*Term))
	}
	panic(fmt.Sprintf("unop: %v on %T", instr.Op, x))
}

// ---- conversions

func (it *Interp) conv(fr *frame, dst, src types.Type, x Value) Value {
	ud, us := dst.Underlying(), src.Underlying()
	switch us := us.(type) {
	case *types.Pointer:
		switch ud.(type) {
		case *types.Pointer:
			return x
		case *types.Basic: // unsafe.Pointer
			return x
		}
	case *types.Slice:
		// []byte/[]rune -> string
		if isString(dst) {
			sl := x.(Slice)
			if b, ok := us.Elem().Underlying().(*types.Basic); ok && b.Kind() == types.Uint8 {
				bs := make([]*Term, len(sl.a))
				for i, e := range sl.a {
					bs[i] = e.(*Term)
				}
				return strFromBytes(bs)
			}
			// []rune
			var buf []byte
			for _, e := range sl.a {
				r := e.(*Term)
				if !r.isConst() {
					panic(unsupported("string([]rune) with symbolic runes"))
				}
				buf = utf8.AppendRune(buf, rune(r.sval()))
			}
			return mkStr(string(buf))
		}
		if _, ok := ud.(*types.Slice); ok {
			return x
		}
	case *types.Basic:
		if us.Kind() == types.UnsafePointer {
			return x
		}
		if us.Info()&types.IsString != 0 {
			s := x.(Str)
			if ds, ok := ud.(*types.Slice); ok {
				if b, ok := ds.Elem().Underlying().(*types.Basic); ok && b.Kind() == types.Uint8 {
					bs := s.bytes()
					out := make([]Value, len(bs))
					for i, t := range bs {
						out[i] = t
					}
					if out == nil {
						out = []Value{}
					}
					return Slice{a: out}
				}
				// []rune
				if !s.isConcrete() {
					panic(unsupported("[]rune(symbolic string)"))
				}
				var out []Value
				for _, r := range s.s {
					out = append(out, mkBV(32, uint64(r)))
				}
				if out == nil {
					out = []Value{}
				}
				return Slice{a: out}
			}
			if isString(dst) {
				return x
			}
		}
		if us.Info()&types.IsInteger != 0 {
			xt := x.(*Term)
			sw, ssigned, _ := intWidth(us)
			if isString(dst) {
				// string(rune)
				if xt.isConst() {
					v := xt.sval()
					if !ssigned {
						v = int64(xt.cv)
					}
					if v < 0 || v > utf8.MaxRune {
						return mkStr("�")
					}
					return mkStr(string(rune(v)))
				}
				// symbolic: assume ASCII
				lim := mkBV(sw, 0x80)
				ascii := bvCmp("bvult", xt, lim)
				if !it.ex.branch(ascii) {
					panic(unsupported("string(rune) of a non-ASCII symbolic rune"))
				}
				return strFromBytes([]*Term{bvExtract(xt, 7, 0)})
			}
			if dw, _, ok := intWidth(ud); ok {
				if dw == sw {
					return xt
				}
				if dw < sw {
					return bvExtract(xt, dw-1, 0)
				}
				if ssigned {
					return bvSext(xt, dw)
				}
				return bvZext(xt, dw)
			}
			if isFloat(dst) {
				if !xt.isConst() {
					panic(unsupported("int->float conversion of a symbolic value"))
				}
				if ssigned {
					return float64(xt.sval())
				}
				return float64(xt.cv)
			}
		}
		if us.Info()&types.IsFloat != 0 {
			f := x.(float64)
			if isFloat(dst) {
				if b := ud.(*types.Basic); b.Kind() == types.Float32 {
					return float64(float32(f))
				}
				return f
			}
			if dw, dsigned, ok := intWidth(ud); ok {
				if dsigned {
					return mkBV(dw, uint64(int64(f)))
				}
				if f < 0 {
					return mkBV(dw, uint64(int64(f)))
				}
				if f >= math.MaxUint64 {
					return mkBV(dw, math.MaxUint64)
				}
				return mkBV(dw, uint64(f))
			}
		}
		if us.Info()&types.IsBoolean != 0 {
			return x
		}
	case *types.Signature, *types.Map, *types.Chan, *types.Struct, *types.Array, *types.Interface:
		return x
	}
	panic(unsupported(fmt.Sprintf("conversion %v -> %v (%T)", src, dst, x)))
}

// ---- type assertions

func (it *Interp) typeAssert(fr *frame, instr *ssa.TypeAssert, xv Value) Value {
	xv = it.resolveNil(fr, xv)
	x := xv.(Iface)
	var v Value
	fail := ""
	if idst, ok := instr.AssertedType.Underlying().(*types.Interface); ok {
		if x.t == nil {
			fail = "interface conversion: interface is nil, not " + instr.AssertedType.String()
		} else if !it.implements(x.t, idst) {
			fail = fmt.Sprintf("interface conversion: %v is not %v: missing method", x.t, instr.AssertedType)
		} else {
			v = x
		}
	} else {
		if x.t == nil {
			fail = "interface conversion: interface is nil, not " + instr.AssertedType.String()
		} else if types.Identical(x.t, instr.AssertedType) {
			v = copyVal(x.v)
		} else {
			fail = fmt.Sprintf("interface conversion: interface is %v, not %v", x.t, instr.AssertedType)
		}
	}
	if fail != "" {
		if !instr.CommaOk {
			panic(targetPanic{implicit: fail})
		}
		return Tuple{zero(instr.AssertedType), tFalse}
	}
	if instr.CommaOk {
		return Tuple{v, tTrue}
	}
	return v
}

func (it *Interp) implements(t types.Type, iface *types.Interface) bool {
	if _, ok := t.(*nativeType); ok {
		return true
	}
	m, _ := types.MissingMethod(t, iface, true)
	return m == nil
}

// ---- builtins

func (it *Interp) callBuiltin(caller *frame, callpos token.Pos, fn *ssa.Builtin, args []Value) Value {
	switch fn.Name() {
	case "append":
		if len(args) == 1 {
			return args[0]
		}
		if s, ok := args[1].(Str); ok {
			bs := s.bytes()
			vs := make([]Value, len(bs))
			for i, b := range bs {
				vs[i] = b
			}
			args[1] = Slice{a: vs}
		}
		a, b := args[0].(Slice), args[1].(Slice)
		if len(b.a) == 0 {
			return a
		}
		// Go append semantics via the host's append (capacity growth policy is the
		// host's; programs must not depend on it).
		oldLen := len(a.a)
		if oldLen+len(b.a) <= cap(a.a) {
			// in-place: journal the overwritten backing cells
			ext := a.a[:oldLen+len(b.a)]
			for i := range b.a {
				it.storeAt(&ext[oldLen+i], copyVal(b.a[i]))
			}
			return Slice{a: ext}
		}
		n := make([]Value, oldLen+len(b.a), (oldLen+len(b.a))*2)
		for i := range a.a {
			n[i] = copyVal(a.a[i])
		}
		for i := range b.a {
			n[oldLen+i] = copyVal(b.a[i])
		}
		return Slice{a: n}
	case "copy":
		dst := args[0].(Slice)
		var src []Value
		switch s := args[1].(type) {
		case Slice:
			src = s.a
		case Str:
			for _, b := range s.bytes() {
				src = append(src, b)
			}
		}
		n := len(dst.a)
		if len(src) < n {
			n = len(src)
		}
		tmp := make([]Value, n)
		for i := 0; i < n; i++ {
			tmp[i] = copyVal(src[i])
		}
		for i := 0; i < n; i++ {
			it.storeAt(&dst.a[i], tmp[i])
		}
		return mkBV(64, uint64(n))
	case "close":
		it.chanClose(caller, args[0])
		return nil
	case "delete":
		m := it.resolveNil(caller, args[0]).(*Map)
		if m != nil {
			it.mapDelete(caller, m, args[1])
		}
		return nil
	case "clear":
		switch x := args[0].(type) {
		case *Map:
			if x != nil {
				old := x.entries
				it.ex.journal = append(it.ex.journal, undoEntry{fn: func() { x.entries = old }})
				x.entries = nil
			}
		case Slice:
			var et types.Type
			if call, ok := caller.curInstr.(ssa.CallInstruction); ok {
				if st, ok := call.Common().Args[0].Type().Underlying().(*types.Slice); ok {
					et = st.Elem()
				}
			}
			if et == nil {
				panic(unsupported("clear of slice: element type unknown"))
			}
			for i := range x.a {
				it.storeAt(&x.a[i], zero(et))
			}
		default:
			panic(unsupported("clear of non-map"))
		}
		return nil
	case "print", "println":
		return nil
	case "len":
		switch x := args[0].(type) {
		case Str:
			return mkBV(64, uint64(x.Len()))
		case Array:
			return mkBV(64, uint64(len(x)))
		case *Value:
			return mkBV(64, uint64(len((*x).(Array))))
		case Slice:
			return mkBV(64, uint64(len(x.a)))
		case *Map:
			if x == nil {
				return mkBV(64, 0)
			}
			return mkBV(64, uint64(len(x.entries)))
		case *Chan:
			if x == nil {
				return mkBV(64, 0)
			}
			return mkBV(64, uint64(len(x.buf)))
		case MaybeNil:
			return it.callBuiltin(caller, callpos, fn, []Value{it.resolveNil(caller, x)})
		}
		panic(fmt.Sprintf("len: %T", args[0]))
	case "cap":
		switch x := args[0].(type) {
		case Array:
			return mkBV(64, uint64(len(x)))
		case *Value:
			return mkBV(64, uint64(len((*x).(Array))))
		case Slice:
			return mkBV(64, uint64(cap(x.a)))
		case *Chan:
			if x == nil {
				return mkBV(64, 0)
			}
			return mkBV(64, uint64(x.cap))
		}
		panic(fmt.Sprintf("cap: %T", args[0]))
	case "min", "max":
		res := args[0]
		for _, a := range args[1:] {
			switch x := res.(type) {
			case *Term:
				y := a.(*Term)
				// the type is needed for signedness: take it from the call instruction
				signed := true
				if call, ok := caller.curInstr.(ssa.Value); ok {
					_, signed, _ = intWidth(call.Type())
				}
				var lt *Term
				if signed {
					lt = bvCmp("bvslt", x, y)
				} else {
					lt = bvCmp("bvult", x, y)
				}
				if fn.Name() == "min" {
					res = mkIte(lt, x, y)
				} else {
					res = mkIte(lt, y, x)
				}
			case float64:
				y := a.(float64)
				if fn.Name() == "min" {
					res = math.Min(x, y)
				} else {
					res = math.Max(x, y)
				}
			case Str:
				y := a.(Str)
				lt := it.strLessV(x, y)
				pick := it.ex.branch(lt)
				if (fn.Name() == "min") == pick {
					res = x
				} else {
					res = y
				}
			default:
				panic(unsupported("min/max on " + fmt.Sprintf("%T", res)))
			}
		}
		return res
	case "panic":
		panic(targetPanic{v: args[0]})
	case "recover":
		return doRecover(caller)
	case "ssa:wrapnilchk":
		recv := args[0]
		recv = it.resolveNil(caller, recv)
		if p, ok := recv.(*Value); ok && p == nil {
			recvType := args[1].(Str).s
			methodName := args[2].(Str).s
			panic(targetPanic{implicit: fmt.Sprintf("value method %s.%s called using nil *%s pointer", recvType, methodName, recvType)})
		}
		return recv
	}
	panic(unsupported("builtin " + fn.Name()))
}
