package main

// regexp model. The pattern text is taken from the interpreted program (it is whatever
// the current source passes to regexp.MustCompile), compiled natively with
// regexp/syntax, and then
//   - MatchString on symbolic bytes: symbolic Thompson-NFA simulation producing ONE Bool
//     term (no forking);
//   - FindStringSubmatch on symbolic bytes: leftmost-first backtracking over the same
//     program, forking at rune tests (real capture semantics).
// Concrete inputs use the native regexp package.
//
// Restriction (recorded as an assumption when it matters): bytes >= 0x80 are treated as
// one-byte runes that match exactly the classes extending beyond ASCII.

import (
	"fmt"
	"regexp"
	"regexp/syntax"

	"golang.org/x/tools/go/ssa"
)

type regexObj struct {
	src  string
	re   *regexp.Regexp
	prog *syntax.Prog
	ncap int
}

func (it *Interp) compileRegex(src Str) *Value {
	if !src.isConcrete() {
		panic(unsupported("regexp.Compile of a non-constant pattern"))
	}
	re, err := regexp.Compile(src.s)
	if err != nil {
		return nil
	}
	parsed, err := syntax.Parse(src.s, syntax.Perl)
	if err != nil {
		return nil
	}
	ncap := parsed.MaxCap()
	prog, err := syntax.Compile(parsed.Simplify())
	if err != nil {
		return nil
	}
	var cell Value = &regexObj{src: src.s, re: re, prog: prog, ncap: ncap}
	return &cell
}

func regexOf(it *Interp, fr *frame, v Value) *regexObj {
	p := it.derefPtr(fr, v)
	return (*p).(*regexObj)
}

func init() {
	reg("regexp.MustCompile", func(it *Interp, fr *frame, fn *ssa.Function, args []Value) Value {
		r := it.compileRegex(asStr(args[0]))
		if r == nil {
			panic(targetPanic{v: Iface{t: nil, v: mkStr("regexp: Compile: bad pattern")}})
		}
		return r
	})
	reg("regexp.Compile", func(it *Interp, fr *frame, fn *ssa.Function, args []Value) Value {
		r := it.compileRegex(asStr(args[0]))
		if r == nil {
			return Tuple{(*Value)(nil), it.errorString("regexp: bad pattern")}
		}
		return Tuple{r, Iface{}}
	})
	reg("(*regexp.Regexp).String", func(it *Interp, fr *frame, fn *ssa.Function, args []Value) Value {
		return mkStr(regexOf(it, fr, args[0]).src)
	})
	reg("(*regexp.Regexp).MatchString", func(it *Interp, fr *frame, fn *ssa.Function, args []Value) Value {
		ro := regexOf(it, fr, args[0])
		s := asStr(args[1])
		if s.isConcrete() {
			return mkBool(ro.re.MatchString(s.s))
		}
		return it.regexMatchTerm(ro, s.bytes())
	})
	reg("(*regexp.Regexp).Match", func(it *Interp, fr *frame, fn *ssa.Function, args []Value) Value {
		ro := regexOf(it, fr, args[0])
		bs := bytesOfSlice(args[1])
		return it.regexMatchTerm(ro, bs)
	})
	reg("(*regexp.Regexp).FindStringSubmatch", func(it *Interp, fr *frame, fn *ssa.Function, args []Value) Value {
		ro := regexOf(it, fr, args[0])
		s := asStr(args[1])
		if s.isConcrete() {
			m := ro.re.FindStringSubmatch(s.s)
			if m == nil {
				return Slice{}
			}
			out := make([]Value, len(m))
			for i := range m {
				out[i] = mkStr(m[i])
			}
			return Slice{a: out}
		}
		caps := it.regexSubmatch(ro, s.bytes())
		if caps == nil {
			return Slice{}
		}
		out := make([]Value, ro.ncap+1)
		for i := range out {
			lo, hi := caps[2*i], caps[2*i+1]
			if lo < 0 || hi < 0 {
				out[i] = mkStr("")
			} else {
				out[i] = s.slice(lo, hi)
			}
		}
		return Slice{a: out}
	})
}

// runeMatch builds the term "byte b matches instruction inst".
func (it *Interp) runeMatch(inst *syntax.Inst, b *Term) *Term {
	switch inst.Op {
	case syntax.InstRuneAny:
		return tTrue
	case syntax.InstRuneAnyNotNL:
		return mkNot(mkEq(b, mkBV(8, '\n')))
	}
	runes := inst.Rune
	fold := syntax.Flags(inst.Arg)&syntax.FoldCase != 0
	var alts []*Term
	addRange := func(lo, hi rune) {
		if lo > 0x7f {
			// beyond ASCII: matched by bytes >= 0x80 only if the class covers (almost) all of it
			if lo <= 0x80 && hi >= 0x10FFFF {
				alts = append(alts, bvCmp("bvuge", b, mkBV(8, 0x80)))
			} else {
				panic(unsupported("regexp: a character class with specific non-ASCII members (e.g. produced by Unicode case folding): the byte-wise regexp model is exact only for ASCII classes, negated classes and '.'"))
			}
			return
		}
		if hi > 0x7f {
			if hi >= 0x10FFFF {
				alts = append(alts, bvCmp("bvuge", b, mkBV(8, uint64(lo))))
				return
			}
			panic(unsupported("regexp: a character class with specific non-ASCII members (e.g. produced by Unicode case folding): the byte-wise regexp model is exact only for ASCII classes, negated classes and '.'"))
			hi = 0x7f
		}
		if lo == hi {
			alts = append(alts, mkEq(b, mkBV(8, uint64(lo))))
		} else {
			alts = append(alts, mkAnd(bvCmp("bvuge", b, mkBV(8, uint64(lo))), bvCmp("bvule", b, mkBV(8, uint64(hi)))))
		}
	}
	if len(runes) == 1 {
		r := runes[0]
		addRange(r, r)
		if fold {
			for f := simpleFoldASCII(r); f != r; f = simpleFoldASCII(f) {
				addRange(f, f)
			}
		}
		return mkOr(alts...)
	}
	for i := 0; i+1 < len(runes); i += 2 {
		addRange(runes[i], runes[i+1])
	}
	if fold {
		panic(unsupported("regexp: case-folded character class"))
	}
	return mkOr(alts...)
}

func simpleFoldASCII(r rune) rune {
	switch {
	case r >= 'a' && r <= 'z':
		return r - 32
	case r >= 'A' && r <= 'Z':
		return r + 32
	}
	return r
}

func isWordByteTerm(b *Term) *Term {
	return mkOr(
		mkAnd(bvCmp("bvuge", b, mkBV(8, 'a')), bvCmp("bvule", b, mkBV(8, 'z'))),
		mkAnd(bvCmp("bvuge", b, mkBV(8, 'A')), bvCmp("bvule", b, mkBV(8, 'Z'))),
		mkAnd(bvCmp("bvuge", b, mkBV(8, '0')), bvCmp("bvule", b, mkBV(8, '9'))),
		mkEq(b, mkBV(8, '_')))
}

// emptyCond is the condition under which the empty-width assertion holds at position i.
func emptyCond(op syntax.EmptyOp, bs []*Term, i int) *Term {
	n := len(bs)
	var cs []*Term
	if op&syntax.EmptyBeginText != 0 {
		cs = append(cs, mkBool(i == 0))
	}
	if op&syntax.EmptyEndText != 0 {
		cs = append(cs, mkBool(i == n))
	}
	if op&syntax.EmptyBeginLine != 0 {
		if i == 0 {
			cs = append(cs, tTrue)
		} else {
			cs = append(cs, mkEq(bs[i-1], mkBV(8, '\n')))
		}
	}
	if op&syntax.EmptyEndLine != 0 {
		if i == n {
			cs = append(cs, tTrue)
		} else {
			cs = append(cs, mkEq(bs[i], mkBV(8, '\n')))
		}
	}
	if op&(syntax.EmptyWordBoundary|syntax.EmptyNoWordBoundary) != 0 {
		before, after := tFalse, tFalse
		if i > 0 {
			before = isWordByteTerm(bs[i-1])
		}
		if i < n {
			after = isWordByteTerm(bs[i])
		}
		boundary := mkNot(mkEq(before, after))
		if op&syntax.EmptyWordBoundary != 0 {
			cs = append(cs, boundary)
		}
		if op&syntax.EmptyNoWordBoundary != 0 {
			cs = append(cs, mkNot(boundary))
		}
	}
	return mkAnd(cs...)
}

// regexMatchTerm: symbolic NFA simulation; result is "the pattern matches somewhere in bs".
func (it *Interp) regexMatchTerm(ro *regexObj, bs []*Term) *Term {
	prog := ro.prog
	n := len(bs)
	anchoredStart := prog.StartCond()&syntax.EmptyBeginText != 0
	matched := tFalse
	active := map[int]*Term{}
	var order []int
	var addClosure func(pc int, cond *Term, i int, onPath map[int]bool)
	addClosure = func(pc int, cond *Term, i int, onPath map[int]bool) {
		if cond.isFalse() || onPath[pc] {
			return
		}
		inst := &prog.Inst[pc]
		switch inst.Op {
		case syntax.InstFail:
		case syntax.InstAlt, syntax.InstAltMatch:
			onPath[pc] = true
			addClosure(int(inst.Out), cond, i, onPath)
			addClosure(int(inst.Arg), cond, i, onPath)
			delete(onPath, pc)
		case syntax.InstNop, syntax.InstCapture:
			onPath[pc] = true
			addClosure(int(inst.Out), cond, i, onPath)
			delete(onPath, pc)
		case syntax.InstEmptyWidth:
			onPath[pc] = true
			addClosure(int(inst.Out), mkAnd(cond, emptyCond(syntax.EmptyOp(inst.Arg), bs, i)), i, onPath)
			delete(onPath, pc)
		case syntax.InstMatch:
			matched = mkOr(matched, cond)
		default: // rune instructions
			if old, ok := active[pc]; ok {
				active[pc] = mkOr(old, cond)
			} else {
				active[pc] = cond
				order = append(order, pc)
			}
		}
	}
	for i := 0; i <= n; i++ {
		if i == 0 || !anchoredStart {
			addClosure(prog.Start, tTrue, i, map[int]bool{})
		}
		if i == n {
			break
		}
		cur, curOrder := active, order
		active, order = map[int]*Term{}, nil
		for _, pc := range curOrder {
			inst := &prog.Inst[pc]
			m := it.runeMatch(inst, bs[i])
			addClosure(int(inst.Out), mkAnd(cur[pc], m), i+1, map[int]bool{})
		}
	}
	return matched
}

// regexSubmatch: leftmost-first backtracking with forks at rune tests. Returns the
// capture index array or nil.
func (it *Interp) regexSubmatch(ro *regexObj, bs []*Term) []int {
	prog := ro.prog
	n := len(bs)
	ncap := 2 * (ro.ncap + 1)
	anchoredStart := prog.StartCond()&syntax.EmptyBeginText != 0
	for start := 0; start <= n; start++ {
		visited := map[[2]int]bool{}
		caps := make([]int, ncap)
		for i := range caps {
			caps[i] = -1
		}
		var try func(pc, pos int) bool
		try = func(pc, pos int) bool {
			key := [2]int{pc, pos}
			if visited[key] {
				return false
			}
			visited[key] = true
			inst := &prog.Inst[pc]
			switch inst.Op {
			case syntax.InstFail:
				return false
			case syntax.InstAlt, syntax.InstAltMatch:
				if try(int(inst.Out), pos) {
					return true
				}
				return try(int(inst.Arg), pos)
			case syntax.InstNop:
				return try(int(inst.Out), pos)
			case syntax.InstCapture:
				if int(inst.Arg) < len(caps) {
					old := caps[inst.Arg]
					caps[inst.Arg] = pos
					if try(int(inst.Out), pos) {
						return true
					}
					caps[inst.Arg] = old
					return false
				}
				return try(int(inst.Out), pos)
			case syntax.InstEmptyWidth:
				c := emptyCond(syntax.EmptyOp(inst.Arg), bs, pos)
				if !it.ex.branch(c) {
					return false
				}
				return try(int(inst.Out), pos)
			case syntax.InstMatch:
				caps[1] = pos
				return true
			default:
				if pos >= n {
					return false
				}
				if !it.ex.branch(it.runeMatch(inst, bs[pos])) {
					return false
				}
				return try(int(inst.Out), pos+1)
			}
		}
		caps[0] = start
		if try(prog.Start, start) {
			// find end: the Match was reached at some pos; recompute via caps[1]
			return caps
		}
		if anchoredStart {
			break
		}
	}
	return nil
}

var _ = fmt.Sprint
