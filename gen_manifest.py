#!/usr/bin/env python3
# Regenerates MANIFEST.json from harness/index.json + manifest_meta.json
import json
idx=json.load(open('harness/index.json'))
meta=json.load(open('manifest_meta.json'))
props=[json.loads(l)['id'] for l in open('properties.jsonl')]
checks=[]
na=[]
for pid in props:
    m=meta['properties'].get(pid,{})
    if pid in idx and not m.get('not_applicable'):
        checks.append({
          "property_id":pid,
          "quick_cmd":"./check %s --tier quick"%pid,
          "thorough_cmd":"./check %s --tier thorough --cross z3-new"%pid,
          "evidence_file":"/verif/evidence/%s.json"%pid,
          "replay_cmd_template":"./check %s --replay {path}"%pid,
          "engine":"symgo",
          "level_claimed":{"category":"model_checking","text":m.get('level_text',''),"design_ref":m.get('design_ref','DESIGN.md section 4')},
          "level_note":m.get('level_note',''),
          "technique":m.get('technique',"bounded symbolic execution of the real go/ssa (symgo) + z3: every assertion is discharged as pc AND NOT(assert) over symbolic inputs; counterexamples replayed natively"),
        })
    else:
        na.append({"property_id":pid,"reason":m.get('na_reason',"no check built yet with the solver-based engine (work in progress)")})
man={
 "version":1,
 "setup_cmd":"cd /verif && export GOFLAGS=-mod=mod GOPROXY=off GOSUMDB=off GOTOOLCHAIN=local && mkdir -p bin evidence replay out && (cd engine && go build -o ../bin/symgo .)",
 "hooks":{"guard":"verif","enable":"none needed: harnesses are injected with go/packages and go build overlays; nothing is written to /repo","baseline_off_cmd":meta['baseline_off_cmd'],"source_commits":[],"add_only":True},
 "engines":[{"name":"symgo","path":"/verif/engine","serves_properties":[c['property_id'] for c in checks],"kind_free_text":"symbolic interpreter for go/ssa of the current /repo tree (x/tools v0.29.0), path exploration by re-execution with a decision trail, SMT-LIB2 to one incremental z3 process per harness; native replay of every model via go test -overlay"}],
 "checks":checks,
 "not_applicable":na,
 "notes":meta.get('notes','')
}
json.dump(man,open('MANIFEST.json','w'),indent=1)
print(len(checks),"checks;",len(na),"not applicable")
