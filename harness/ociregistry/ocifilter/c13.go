package ocifilter

// C13: the sub-registry view is confined to its prefix.

import (
	"context"
	"strings"

	"cuelabs.dev/go/oci/ociregistry"
	"cuelabs.dev/go/oci/ociregistry/ociauth"
)

func c13inside(prefix, mapped string) bool {
	return mapped == "" || mapped == prefix || strings.HasPrefix(mapped, prefix+"/")
}

// VerifC13_Name: no caller-supplied name, well-formed or not, maps outside the prefix.
func VerifC13_Name() {
	prefixes := []string{"p", "pp/q"}
	prefix := prefixes[verifChoose("prefix", len(prefixes))]
	name := verifString("name", verifParam("maxlen", 5))
	r := &subRegistry{prefix: prefix}
	mapped := r.repo(name)
	verifObserve("mapped", mapped)
	verifAssert(c13inside(prefix, mapped), "mapped-name-stays-under-prefix")
	// clean relative names map to prefix/name exactly
	clean := name != "" && !strings.Contains(name, "//") && !strings.HasPrefix(name, "/") && !strings.HasSuffix(name, "/")
	if clean {
		for _, el := range strings.Split(name, "/") {
			if el == "." || el == ".." {
				clean = false
			}
		}
	}
	if clean {
		verifAssert(mapped == prefix+"/"+name, "clean-name-maps-to-prefix-slash-name")
		verifCover("clean")
	}
	verifCover("end")
}

// VerifC13_Methods: every method acts on the mapped name(s) only and sees rewritten scopes.
func VerifC13_Methods() {
	m := verifChoose("method", mCount)
	verifAssume(m != mRepositories)
	b, backend := newVfBackend()
	r := Sub(backend, "pre/fix")
	withScope := verifBool("withScope")
	ctx := context.Background()
	if withScope {
		ctx = ociauth.ContextWithScope(ctx, ociauth.NewScope(
			ociauth.ResourceScope{ResourceType: "repository", Resource: "a", Action: "pull"},
			ociauth.ResourceScope{ResourceType: "repository", Resource: "b", Action: "push"},
			ociauth.ResourceScope{ResourceType: "registry", Resource: "catalog", Action: "*"},
		))
	}
	a := vfDefaultArgs(ctx, "a", "b")
	res := vfInvoke(r, m, a)
	verifAssert(vfDelegatedOK(b, m, a, "pre/fix/a", "pre/fix/b", res), "acts-on-prefixed-name-only")
	if len(b.calls) == 1 {
		got := ociauth.ScopeFromContext(b.calls[0].ctx)
		if withScope {
			want := ociauth.NewScope(
				ociauth.ResourceScope{ResourceType: "repository", Resource: "pre/fix/a", Action: "pull"},
				ociauth.ResourceScope{ResourceType: "repository", Resource: "pre/fix/b", Action: "push"},
				ociauth.ResourceScope{ResourceType: "registry", Resource: "catalog", Action: "*"},
			)
			verifAssert(got.Equal(want), "scopes-rewritten-to-prefixed-names")
			verifCover("scoped")
		} else {
			verifAssert(got.IsEmpty(), "no-scope-stays-empty")
		}
	}
	verifCover("end")
}

// VerifC13_Listing: repository listings from any start point contain exactly the
// stripped names under the prefix that sort after the start point.
func VerifC13_Listing() {
	// backend contents: a sorted subset of a menu with siblings sharing a textual prefix
	menu := []string{"o/z", "p", "p-x/y", "p.y", "p/a", "p/b", "p/b/c", "pa", "q"}
	var have []string
	for _, nm := range menu {
		if verifBool("has") {
			have = append(have, nm)
		}
	}
	startAfter := verifString("startAfter", verifParam("maxlen", 2))
	backend := &ociregistry.Funcs{
		Repositories_: func(ctx context.Context, after string) ociregistry.Seq[string] {
			return func(yield func(string, error) bool) {
				for _, nm := range have {
					if nm > after {
						if !yield(nm, nil) {
							return
						}
					}
				}
			}
		},
	}
	r := Sub(backend, "p")
	got, err := ociregistry.All(r.Repositories(context.Background(), startAfter))
	verifAssert(err == nil, "no-error")
	var want []string
	for _, nm := range have {
		if s, ok := strings.CutPrefix(nm, "p/"); ok && s > startAfter {
			want = append(want, s)
		}
	}
	same := len(got) == len(want)
	if same {
		for i := range got {
			if got[i] != want[i] {
				same = false
			}
		}
	}
	verifAssert(same, "listing-is-exactly-the-stripped-names-after-start")
	verifCover("end")
}

func init() {
	verifRegister("VerifC13_Name", VerifC13_Name)
	verifRegister("VerifC13_Methods", VerifC13_Methods)
	verifRegister("VerifC13_Listing", VerifC13_Listing)
}
