package ocifilter

// C12: access-checking / selecting wrappers never let a rejected repository through.

import (
	"context"
	"errors"

	"cuelabs.dev/go/oci/ociregistry"
)

var c12denyErr = errors.New("policy says no")

// c12policy answers per (repository, kind) with independent symbolic booleans for the
// two repositories involved ("a" and "b"); every other name is answered by a further
// symbolic boolean per kind.
type c12policy struct {
	allowA, allowB, allowStar, allowOther [4]bool
	checks                                []string
}

func newC12policy() *c12policy {
	p := &c12policy{}
	for k := 0; k < 4; k++ {
		p.allowA[k] = verifBool("allowA")
		p.allowB[k] = verifBool("allowB")
		p.allowStar[k] = verifBool("allowStar")
		p.allowOther[k] = verifBool("allowOther")
	}
	return p
}

func (p *c12policy) allowed(repo string, kind AccessKind) bool {
	switch repo {
	case "a":
		return p.allowA[kind]
	case "b":
		return p.allowB[kind]
	case "*":
		return p.allowStar[kind]
	}
	return p.allowOther[kind]
}

func (p *c12policy) check(repo string, kind AccessKind) error {
	p.checks = append(p.checks, repo)
	if p.allowed(repo, kind) {
		return nil
	}
	return c12denyErr
}

// VerifC12_AccessChecker: any one non-listing-of-repositories method under an arbitrary policy.
func VerifC12_AccessChecker() {
	m := verifChoose("method", mCount)
	verifAssume(m != mRepositories)
	b, backend := newVfBackend()
	p := newC12policy()
	r := AccessChecker(backend, p.check)
	// a mount may name the same repository twice (read is checked on the source, write
	// on the target, whatever their names)
	to := "b"
	if m == mMountBlob && verifBool("mountWithinOneRepository") {
		to = "a"
	}
	a := vfDefaultArgs(context.Background(), "a", to)
	res := vfInvoke(r, m, a)
	kind := vfKind[m]
	allowed := p.allowed("a", kind)
	if m == mMountBlob {
		allowed = allowed && p.allowed(to, AccessWrite)
	}
	if allowed {
		verifAssert(vfDelegatedOK(b, m, a, "a", to, res), "allowed-delegates-exactly")
		verifCover("allowed")
	} else {
		verifAssert(len(b.calls) == 0, "denied-no-backend-call")
		verifAssert(res.err == c12denyErr, "denied-policy-error")
		verifAssert(res.rd == nil && res.wr == nil && res.desc.Digest == "" && res.nItems == 0, "denied-no-result")
		verifCover("denied")
	}
}

// VerifC12_Select: the selecting wrapper's error mapping.
func VerifC12_Select() {
	m := verifChoose("method", mCount)
	verifAssume(m != mRepositories)
	b, backend := newVfBackend()
	allowA, allowB := verifBool("allowA"), verifBool("allowB")
	r := Select(backend, func(repo string) bool {
		switch repo {
		case "a":
			return allowA
		case "b":
			return allowB
		}
		return verifBool("allowOther")
	})
	to := "b"
	if m == mMountBlob && verifBool("mountWithinOneRepository") {
		to = "a"
	}
	a := vfDefaultArgs(context.Background(), "a", to)
	res := vfInvoke(r, m, a)
	allowed := allowA
	if m == mMountBlob && to == "b" {
		allowed = allowA && allowB
	}
	if allowed {
		verifAssert(vfDelegatedOK(b, m, a, "a", to, res), "allowed-delegates-exactly")
		verifCover("allowed")
	} else {
		verifAssert(len(b.calls) == 0, "denied-no-backend-call")
		if m == mMountBlob && allowA {
			// the source is readable, the target is not writable
			verifAssert(errors.Is(res.err, ociregistry.ErrDenied), "denied-write-is-DENIED")
		} else if vfKind[m] == AccessWrite {
			verifAssert(errors.Is(res.err, ociregistry.ErrDenied), "denied-write-is-DENIED")
		} else {
			verifAssert(errors.Is(res.err, ociregistry.ErrNameUnknown), "denied-read-list-delete-is-NAME_UNKNOWN")
		}
		verifCover("denied")
	}
}

// VerifC12_Listing: repository listings contain exactly the allowed names, in order;
// an error from the backend ends the listing with that error; a consumer that stops is
// not called again.
func VerifC12_Listing() {
	n := verifChoose("nItems", 4) // 0..3 backend items
	failAt := verifChoose("failAt", 5) // 4 = no failure
	stopAfter := verifChoose("stopAfter", 5) // consumer declines after k items; 4 = never
	names := []string{"r0", "r1", "r2"}[:n]
	var allow [3]bool
	for i := range allow {
		allow[i] = verifBool("allow")
	}
	starOK := verifBool("allowStar")
	backendCalls := 0
	backend := &ociregistry.Funcs{
		Repositories_: func(ctx context.Context, startAfter string) ociregistry.Seq[string] {
			backendCalls++
			verifAssert(startAfter == "start", "startAfter-passed-through")
			return func(yield func(string, error) bool) {
				for i, nm := range names {
					if i == failAt {
						yield("", vfErr)
						return
					}
					if !yield(nm, nil) {
						return
					}
				}
				if failAt == n && n < 4 {
					yield("", vfErr)
				}
			}
		},
	}
	r := AccessChecker(backend, func(repo string, kind AccessKind) error {
		if repo == "*" {
			if starOK {
				return nil
			}
			return c12denyErr
		}
		for i, nm := range names {
			if nm == repo {
				if allow[i] {
					return nil
				}
				return c12denyErr
			}
		}
		return c12denyErr
	})
	var got []string
	var gotErr error
	callsAfterStop := 0
	stopped := false
	r.Repositories(context.Background(), "start")(func(s string, err error) bool {
		if stopped {
			callsAfterStop++
		}
		if err != nil {
			gotErr = err
			stopped = true
			return true // a consumer that (wrongly) asks for more after an error must not be called again
		}
		got = append(got, s)
		if len(got) == stopAfter {
			stopped = true
			return false
		}
		return true
	})
	verifAssert(callsAfterStop == 0, "no-call-after-stop-or-error")
	if !starOK {
		verifAssert(backendCalls == 0 && len(got) == 0 && gotErr == c12denyErr, "list-denied")
		return
	}
	// expected sequence
	var want []string
	var wantErr error
	wantStopped := false
	for i, nm := range names {
		if i == failAt {
			wantErr = vfErr
			break
		}
		if allow[i] {
			want = append(want, nm)
			if len(want) == stopAfter {
				wantStopped = true
				break
			}
		}
	}
	if wantErr == nil && failAt == n && !wantStopped {
		wantErr = vfErr
	}
	same := len(got) == len(want)
	if same {
		for i := range got {
			if got[i] != want[i] {
				same = false
			}
		}
	}
	verifAssert(same, "exactly-the-allowed-items-in-order")
	verifAssert(gotErr == wantErr, "error-iff-backend-error")
	verifCover("listing")
}

func init() {
	verifRegister("VerifC12_AccessChecker", VerifC12_AccessChecker)
	verifRegister("VerifC12_Select", VerifC12_Select)
	verifRegister("VerifC12_Listing", VerifC12_Listing)
}
