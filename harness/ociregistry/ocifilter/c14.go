package ocifilter

// C14 (wrapper part): the read-only wrapper rejects every mutating call without
// touching the backend and delegates reads and listings unchanged.

import (
	"context"
	"errors"

	"cuelabs.dev/go/oci/ociregistry"
)

func VerifC14_ReadOnly() {
	m := verifChoose("method", mCount)
	b, backend := newVfBackend()
	r := ReadOnly(backend)
	a := vfDefaultArgs(context.Background(), "a", "b")
	res := vfInvoke(r, m, a)
	if vfMutating(m) {
		verifAssert(len(b.calls) == 0, "mutating-call-never-reaches-backend")
		verifAssert(errors.Is(res.err, ociregistry.ErrUnsupported), "mutating-call-is-unsupported")
		verifAssert(res.wr == nil && res.desc.Digest == "", "mutating-call-no-result")
		verifCover("mutating")
	} else {
		verifAssert(vfDelegatedOK(b, m, a, "a", "b", res), "read-delegates-exactly")
		if m == mRepositories {
			verifAssert(res.nItems == 1 && res.item0 == "item", "repositories-pass-through")
		}
		verifCover("read")
	}
}

// VerifC14_ReadOnlySeq: no sequence of calls (length <= 3) through the read-only
// wrapper reaches a mutating backend method (the wrapper is stateless, so one step
// generalises; the sequence is checked directly as well).
func VerifC14_ReadOnlySeq() {
	b, backend := newVfBackend()
	r := ReadOnly(backend)
	n := verifParam("steps", 2)
	for i := 0; i < n; i++ {
		m := verifChoose("method", mCount)
		a := vfDefaultArgs(context.Background(), "a", "b")
		vfInvoke(r, m, a)
	}
	for _, c := range b.calls {
		verifAssert(!vfMutating(c.method), "no-mutating-backend-call-in-any-history")
	}
	verifCover("end")
}

func init() {
	verifRegister("VerifC14_ReadOnly", VerifC14_ReadOnly)
	verifRegister("VerifC14_ReadOnlySeq", VerifC14_ReadOnlySeq)
}
