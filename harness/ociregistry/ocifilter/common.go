package ocifilter

// Shared harness support for the ocifilter wrappers (C12, C13, C14): a recording backend
// built on ociregistry.Funcs, and a dispatcher that issues any one of the 18 Interface
// methods with fixed, distinguishable arguments.

import (
	"context"
	"errors"
	"io"

	"cuelabs.dev/go/oci/ociregistry"
)

type vfCtxKey struct{}

var (
	vfErr  = errors.New("backend error")
	vfDesc = ociregistry.Descriptor{MediaType: "application/x-backend", Size: 7, Digest: "sha256:backend"}
)

const (
	mGetBlob = iota
	mGetBlobRange
	mGetManifest
	mGetTag
	mResolveBlob
	mResolveManifest
	mResolveTag
	mPushBlob
	mPushBlobChunked
	mPushBlobChunkedResume
	mMountBlob
	mPushManifest
	mDeleteBlob
	mDeleteManifest
	mDeleteTag
	mRepositories
	mTags
	mReferrers
	mCount
)

var vfMethodNames = [mCount]string{"GetBlob", "GetBlobRange", "GetManifest", "GetTag", "ResolveBlob", "ResolveManifest", "ResolveTag",
	"PushBlob", "PushBlobChunked", "PushBlobChunkedResume", "MountBlob", "PushManifest", "DeleteBlob", "DeleteManifest", "DeleteTag",
	"Repositories", "Tags", "Referrers"}

// access kind each method needs on its (first) repository
var vfKind = [mCount]AccessKind{AccessRead, AccessRead, AccessRead, AccessRead, AccessRead, AccessRead, AccessRead,
	AccessWrite, AccessWrite, AccessWrite, AccessRead /* from; to needs write */, AccessWrite, AccessDelete, AccessDelete, AccessDelete,
	AccessList, AccessList, AccessList}

func vfMutating(m int) bool { return m >= mPushBlob && m <= mDeleteTag }

type vfReader struct{ ociregistry.BlobReader }
type vfWriter struct{ ociregistry.BlobWriter }
type vfIOReader struct{}

func (vfIOReader) Read([]byte) (int, error) { return 0, io.EOF }

type vfCall struct {
	method       int
	ctx          context.Context
	repo, repo2  string
	str          string // tag / id / startAfter / artifactType
	dig          ociregistry.Digest
	i1           int64
	i2           int64
	desc         ociregistry.Descriptor
	rd           io.Reader
	data         []byte
	mediaType    string
}

type vfBackend struct {
	calls []vfCall
	fail  bool // the backend's answer: error or success
	rd    *vfReader
	wr    *vfWriter
	seqS  ociregistry.Seq[string]
	seqD  ociregistry.Seq[ociregistry.Descriptor]
}

func (b *vfBackend) err() error {
	if b.fail {
		return vfErr
	}
	return nil
}

func (b *vfBackend) rec(c vfCall) { b.calls = append(b.calls, c) }

func newVfBackend() (*vfBackend, ociregistry.Interface) {
	b := &vfBackend{rd: &vfReader{}, wr: &vfWriter{}}
	b.fail = verifBool("backendFails")
	b.seqS = func(yield func(string, error) bool) { yield("item", nil) }
	b.seqD = func(yield func(ociregistry.Descriptor, error) bool) { yield(vfDesc, nil) }
	f := &ociregistry.Funcs{
		GetBlob_: func(ctx context.Context, repo string, digest ociregistry.Digest) (ociregistry.BlobReader, error) {
			b.rec(vfCall{method: mGetBlob, ctx: ctx, repo: repo, dig: digest})
			return b.rd, b.err()
		},
		GetBlobRange_: func(ctx context.Context, repo string, digest ociregistry.Digest, o0, o1 int64) (ociregistry.BlobReader, error) {
			b.rec(vfCall{method: mGetBlobRange, ctx: ctx, repo: repo, dig: digest, i1: o0, i2: o1})
			return b.rd, b.err()
		},
		GetManifest_: func(ctx context.Context, repo string, digest ociregistry.Digest) (ociregistry.BlobReader, error) {
			b.rec(vfCall{method: mGetManifest, ctx: ctx, repo: repo, dig: digest})
			return b.rd, b.err()
		},
		GetTag_: func(ctx context.Context, repo string, tag string) (ociregistry.BlobReader, error) {
			b.rec(vfCall{method: mGetTag, ctx: ctx, repo: repo, str: tag})
			return b.rd, b.err()
		},
		ResolveBlob_: func(ctx context.Context, repo string, digest ociregistry.Digest) (ociregistry.Descriptor, error) {
			b.rec(vfCall{method: mResolveBlob, ctx: ctx, repo: repo, dig: digest})
			return vfDesc, b.err()
		},
		ResolveManifest_: func(ctx context.Context, repo string, digest ociregistry.Digest) (ociregistry.Descriptor, error) {
			b.rec(vfCall{method: mResolveManifest, ctx: ctx, repo: repo, dig: digest})
			return vfDesc, b.err()
		},
		ResolveTag_: func(ctx context.Context, repo string, tag string) (ociregistry.Descriptor, error) {
			b.rec(vfCall{method: mResolveTag, ctx: ctx, repo: repo, str: tag})
			return vfDesc, b.err()
		},
		PushBlob_: func(ctx context.Context, repo string, desc ociregistry.Descriptor, r io.Reader) (ociregistry.Descriptor, error) {
			b.rec(vfCall{method: mPushBlob, ctx: ctx, repo: repo, desc: desc, rd: r})
			return vfDesc, b.err()
		},
		PushBlobChunked_: func(ctx context.Context, repo string, chunkSize int) (ociregistry.BlobWriter, error) {
			b.rec(vfCall{method: mPushBlobChunked, ctx: ctx, repo: repo, i2: int64(chunkSize)})
			return b.wr, b.err()
		},
		PushBlobChunkedResume_: func(ctx context.Context, repo, id string, offset int64, chunkSize int) (ociregistry.BlobWriter, error) {
			b.rec(vfCall{method: mPushBlobChunkedResume, ctx: ctx, repo: repo, str: id, i1: offset, i2: int64(chunkSize)})
			return b.wr, b.err()
		},
		MountBlob_: func(ctx context.Context, fromRepo, toRepo string, digest ociregistry.Digest) (ociregistry.Descriptor, error) {
			b.rec(vfCall{method: mMountBlob, ctx: ctx, repo: fromRepo, repo2: toRepo, dig: digest})
			return vfDesc, b.err()
		},
		PushManifest_: func(ctx context.Context, repo string, tag string, contents []byte, mediaType string) (ociregistry.Descriptor, error) {
			b.rec(vfCall{method: mPushManifest, ctx: ctx, repo: repo, str: tag, data: contents, mediaType: mediaType})
			return vfDesc, b.err()
		},
		DeleteBlob_: func(ctx context.Context, repo string, digest ociregistry.Digest) error {
			b.rec(vfCall{method: mDeleteBlob, ctx: ctx, repo: repo, dig: digest})
			return b.err()
		},
		DeleteManifest_: func(ctx context.Context, repo string, digest ociregistry.Digest) error {
			b.rec(vfCall{method: mDeleteManifest, ctx: ctx, repo: repo, dig: digest})
			return b.err()
		},
		DeleteTag_: func(ctx context.Context, repo string, name string) error {
			b.rec(vfCall{method: mDeleteTag, ctx: ctx, repo: repo, str: name})
			return b.err()
		},
		Repositories_: func(ctx context.Context, startAfter string) ociregistry.Seq[string] {
			b.rec(vfCall{method: mRepositories, ctx: ctx, str: startAfter})
			return b.seqS
		},
		Tags_: func(ctx context.Context, repo string, startAfter string) ociregistry.Seq[string] {
			b.rec(vfCall{method: mTags, ctx: ctx, repo: repo, str: startAfter})
			return b.seqS
		},
		Referrers_: func(ctx context.Context, repo string, digest ociregistry.Digest, artifactType string) ociregistry.Seq[ociregistry.Descriptor] {
			b.rec(vfCall{method: mReferrers, ctx: ctx, repo: repo, dig: digest, str: artifactType})
			return b.seqD
		},
	}
	return b, f
}

// vfResult is what a caller observes from one call.
type vfResult struct {
	rd     ociregistry.BlobReader
	wr     ociregistry.BlobWriter
	desc   ociregistry.Descriptor
	err    error
	nItems int
	item0  string
	itemD  ociregistry.Descriptor
}

type vfArgs struct {
	ctx          context.Context
	repo, repo2  string
	dig          ociregistry.Digest
	str          string
	o0, o1       int64
	chunk        int
	desc         ociregistry.Descriptor
	rd           io.Reader
	data         []byte
	mediaType    string
}

func vfDefaultArgs(ctx context.Context, repo, repo2 string) vfArgs {
	// the non-repository string arguments (digest, tag / upload id / start point, media
	// type) are symbolic (0 or 1 arbitrary byte, so the empty string is included): the
	// wrappers must pass them through unchanged and must not look at them
	return vfArgs{ctx: ctx, repo: repo, repo2: repo2, dig: ociregistry.Digest(verifString("argDigest", 1)), str: verifString("argStr", 1), o0: verifInt64("o0"), o1: verifInt64("o1"),
		chunk: verifInt("chunk"), desc: ociregistry.Descriptor{MediaType: "m", Size: verifInt64("descSize"), Digest: ociregistry.Digest(verifString("descDigest", 1))}, rd: vfIOReader{}, data: []byte{1, 2}, mediaType: verifString("argMediaType", 1)}
}

func vfDrainS(seq ociregistry.Seq[string], res *vfResult) {
	seq(func(s string, err error) bool {
		if err != nil {
			res.err = err
			return false
		}
		if res.nItems == 0 {
			res.item0 = s
		}
		res.nItems++
		return true
	})
}

func vfDrainD(seq ociregistry.Seq[ociregistry.Descriptor], res *vfResult) {
	seq(func(d ociregistry.Descriptor, err error) bool {
		if err != nil {
			res.err = err
			return false
		}
		if res.nItems == 0 {
			res.itemD = d
		}
		res.nItems++
		return true
	})
}

// vfInvoke issues method m on r.
func vfInvoke(r ociregistry.Interface, m int, a vfArgs) (res vfResult) {
	switch m {
	case mGetBlob:
		res.rd, res.err = r.GetBlob(a.ctx, a.repo, a.dig)
	case mGetBlobRange:
		res.rd, res.err = r.GetBlobRange(a.ctx, a.repo, a.dig, a.o0, a.o1)
	case mGetManifest:
		res.rd, res.err = r.GetManifest(a.ctx, a.repo, a.dig)
	case mGetTag:
		res.rd, res.err = r.GetTag(a.ctx, a.repo, a.str)
	case mResolveBlob:
		res.desc, res.err = r.ResolveBlob(a.ctx, a.repo, a.dig)
	case mResolveManifest:
		res.desc, res.err = r.ResolveManifest(a.ctx, a.repo, a.dig)
	case mResolveTag:
		res.desc, res.err = r.ResolveTag(a.ctx, a.repo, a.str)
	case mPushBlob:
		res.desc, res.err = r.PushBlob(a.ctx, a.repo, a.desc, a.rd)
	case mPushBlobChunked:
		res.wr, res.err = r.PushBlobChunked(a.ctx, a.repo, a.chunk)
	case mPushBlobChunkedResume:
		res.wr, res.err = r.PushBlobChunkedResume(a.ctx, a.repo, a.str, a.o0, a.chunk)
	case mMountBlob:
		res.desc, res.err = r.MountBlob(a.ctx, a.repo, a.repo2, a.dig)
	case mPushManifest:
		res.desc, res.err = r.PushManifest(a.ctx, a.repo, a.str, a.data, a.mediaType)
	case mDeleteBlob:
		res.err = r.DeleteBlob(a.ctx, a.repo, a.dig)
	case mDeleteManifest:
		res.err = r.DeleteManifest(a.ctx, a.repo, a.dig)
	case mDeleteTag:
		res.err = r.DeleteTag(a.ctx, a.repo, a.str)
	case mRepositories:
		vfDrainS(r.Repositories(a.ctx, a.str), &res)
	case mTags:
		vfDrainS(r.Tags(a.ctx, a.repo, a.str), &res)
	case mReferrers:
		vfDrainD(r.Referrers(a.ctx, a.repo, a.dig, a.str), &res)
	}
	return res
}

// vfDelegatedOK: the backend saw exactly one call of method m with arguments a (repo
// names as given in wantRepo/wantRepo2) and the caller saw the backend's results.
func vfDelegatedOK(b *vfBackend, m int, a vfArgs, wantRepo, wantRepo2 string, res vfResult) bool {
	if len(b.calls) != 1 {
		return false
	}
	c := b.calls[0]
	if c.method != m {
		return false
	}
	ok := true
	switch m {
	case mGetBlob, mGetManifest:
		ok = c.repo == wantRepo && c.dig == a.dig && res.rd == ociregistry.BlobReader(b.rd)
	case mGetBlobRange:
		ok = c.repo == wantRepo && c.dig == a.dig && c.i1 == a.o0 && c.i2 == a.o1 && res.rd == ociregistry.BlobReader(b.rd)
	case mGetTag:
		ok = c.repo == wantRepo && c.str == a.str && res.rd == ociregistry.BlobReader(b.rd)
	case mResolveBlob, mResolveManifest:
		ok = c.repo == wantRepo && c.dig == a.dig && res.desc.Digest == vfDesc.Digest && res.desc.Size == vfDesc.Size
	case mResolveTag:
		ok = c.repo == wantRepo && c.str == a.str && res.desc.Digest == vfDesc.Digest
	case mPushBlob:
		ok = c.repo == wantRepo && c.desc.Digest == a.desc.Digest && c.desc.Size == a.desc.Size && c.rd == a.rd && res.desc.Digest == vfDesc.Digest
	case mPushBlobChunked:
		ok = c.repo == wantRepo && c.i2 == int64(a.chunk) && res.wr == ociregistry.BlobWriter(b.wr)
	case mPushBlobChunkedResume:
		ok = c.repo == wantRepo && c.str == a.str && c.i1 == a.o0 && c.i2 == int64(a.chunk) && res.wr == ociregistry.BlobWriter(b.wr)
	case mMountBlob:
		ok = c.repo == wantRepo && c.repo2 == wantRepo2 && c.dig == a.dig && res.desc.Digest == vfDesc.Digest
	case mPushManifest:
		ok = c.repo == wantRepo && c.str == a.str && len(c.data) == len(a.data) && &c.data[0] == &a.data[0] && c.mediaType == a.mediaType && res.desc.Digest == vfDesc.Digest
	case mDeleteBlob, mDeleteManifest:
		ok = c.repo == wantRepo && c.dig == a.dig
	case mDeleteTag:
		ok = c.repo == wantRepo && c.str == a.str
	case mTags:
		ok = c.repo == wantRepo && c.str == a.str && res.nItems == 1 && res.item0 == "item"
	case mReferrers:
		ok = c.repo == wantRepo && c.dig == a.dig && c.str == a.str && res.nItems == 1 && res.itemD.Digest == vfDesc.Digest
	case mRepositories:
		ok = c.str == a.str
	}
	if !ok {
		return false
	}
	if m < mRepositories {
		if b.fail {
			return res.err == vfErr
		}
		return res.err == nil
	}
	return true
}
