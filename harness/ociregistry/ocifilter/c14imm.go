package ocifilter

// C14 (immutable wrapper part): through Immutable(r), over a real in-memory registry,
// once a tag has been observed to resolve to a digest it resolves to that digest and the
// same bytes after every history of calls, and nothing is ever deleted.

import (
	"bytes"
	"context"
	"errors"
	"io"

	"cuelabs.dev/go/oci/ociregistry"
	"cuelabs.dev/go/oci/ociregistry/ocimem"
	"github.com/opencontainers/go-digest"
)

const c14immOpaque = "application/x-opaque"

type c14immBinding struct {
	repo, tag string
	dig       ociregistry.Digest
	data      []byte
}

// c14immObserve reads every (repo, tag) binding of the small universe on the backend.
func c14immObserve(ctx context.Context, back ociregistry.Interface, repos, tags []string) []c14immBinding {
	var out []c14immBinding
	for _, repo := range repos {
		for _, tag := range tags {
			rd, err := back.GetTag(ctx, repo, tag)
			if err != nil {
				continue
			}
			data, _ := io.ReadAll(rd)
			out = append(out, c14immBinding{repo, tag, rd.Descriptor().Digest, data})
			rd.Close()
		}
	}
	return out
}

func VerifC14_Immutable() {
	ctx := context.Background()
	back := ocimem.New()
	r := Immutable(back)
	repos := []string{"a", "b"}
	tags := []string{"t1", "t2"}
	// Contents: two distinct documents; the second has two symbolic bytes so that equal
	// and different contents are both covered by the solver.
	docs := [][]byte{[]byte("m0"), append([]byte("m"), verifBytes("doc1", 1)...)}
	blob := []byte("blob")
	blobDesc := ociregistry.Descriptor{MediaType: "application/octet-stream", Digest: digest.FromBytes(blob), Size: int64(len(blob))}

	// Pre-state built directly on the backend (any subset).
	if verifBool("pre.blob") {
		_, err := back.PushBlob(ctx, "a", blobDesc, bytes.NewReader(blob))
		verifAssume(err == nil)
	}
	if verifBool("pre.t1") {
		_, err := back.PushManifest(ctx, "a", "t1", docs[verifChoose("pre.t1.doc", 2)], c14immOpaque)
		verifAssume(err == nil)
	}
	if verifBool("pre.untagged") {
		_, err := back.PushManifest(ctx, "a", "", docs[0], c14immOpaque)
		verifAssume(err == nil)
	}

	var seen []c14immBinding // every binding ever observed
	seen = append(seen, c14immObserve(ctx, back, repos, tags)...)
	hadBlob := c14immHasBlob(ctx, back, "a", blobDesc.Digest)
	hadManifest := [2]bool{c14immHasManifest(ctx, back, "a", digest.FromBytes(docs[0])), false}

	n := verifParam("steps", 2)
	for i := 0; i < n; i++ {
		switch verifChoose("op", 6) {
		case 0: // tagged or untagged manifest push through the wrapper
			repo := repos[verifChoose("op.repo", 2)]
			tag := []string{"", "t1", "t2"}[verifChoose("op.tag", 3)]
			doc := docs[verifChoose("op.doc", 2)]
			desc, err := r.PushManifest(ctx, repo, tag, doc, c14immOpaque)
			if err == nil {
				verifAssert(desc.Digest == digest.FromBytes(doc), "push-reports-pushed-digest")
				if tag != "" {
					d2, err2 := back.ResolveTag(ctx, repo, tag)
					verifAssert(err2 == nil && d2.Digest == desc.Digest, "successful-tagged-push-binds-tag")
				}
				verifCover("push-ok")
			} else {
				verifCover("push-refused")
			}
		case 1:
			err := r.DeleteBlob(ctx, "a", blobDesc.Digest)
			verifAssert(errors.Is(err, ociregistry.ErrDenied), "delete-blob-denied")
		case 2:
			err := r.DeleteManifest(ctx, "a", digest.FromBytes(docs[0]))
			verifAssert(errors.Is(err, ociregistry.ErrDenied), "delete-manifest-denied")
		case 3:
			err := r.DeleteTag(ctx, "a", tags[verifChoose("op.deltag", 2)])
			verifAssert(errors.Is(err, ociregistry.ErrDenied), "delete-tag-denied")
		case 4:
			_, err := r.PushBlob(ctx, "a", blobDesc, bytes.NewReader(blob))
			verifAssert(err == nil, "blob-push-passes-through")
		case 5:
			_, err := r.MountBlob(ctx, "a", "b", blobDesc.Digest)
			_ = err
		}
		// Everything observed so far is still bound to the same digest and bytes.
		for _, b := range seen {
			rd, err := r.GetTag(ctx, b.repo, b.tag)
			verifAssert(err == nil, "observed-tag-still-resolves")
			if err != nil {
				continue
			}
			data, _ := io.ReadAll(rd)
			verifAssert(rd.Descriptor().Digest == b.dig, "observed-tag-same-digest")
			verifAssert(bytes.Equal(data, b.data), "observed-tag-same-bytes")
			rd.Close()
		}
		// Nothing is ever deleted.
		if hadBlob {
			verifAssert(c14immHasBlob(ctx, back, "a", blobDesc.Digest), "blob-never-deleted")
		}
		if hadManifest[0] {
			verifAssert(c14immHasManifest(ctx, back, "a", digest.FromBytes(docs[0])), "manifest-never-deleted")
		}
		seen = append(seen, c14immObserve(ctx, back, repos, tags)...)
		hadBlob = hadBlob || c14immHasBlob(ctx, back, "a", blobDesc.Digest)
		hadManifest[0] = hadManifest[0] || c14immHasManifest(ctx, back, "a", digest.FromBytes(docs[0]))
	}
	verifCover("end")
}

func c14immHasBlob(ctx context.Context, r ociregistry.Interface, repo string, d ociregistry.Digest) bool {
	_, err := r.ResolveBlob(ctx, repo, d)
	return err == nil
}

func c14immHasManifest(ctx context.Context, r ociregistry.Interface, repo string, d ociregistry.Digest) bool {
	_, err := r.ResolveManifest(ctx, repo, d)
	return err == nil
}

func init() {
	verifRegister("VerifC14_Immutable", VerifC14_Immutable)
}
