package ociserver

// C03: the HTTP client + server in front of a registry do not change its observable
// behaviour. The same call is issued directly on one in-memory registry and through
// client -> server on an identically prepared one; results and resulting states are
// compared.

import (
	"bytes"
	"context"
	"encoding/json"
	"errors"
	"io"

	"cuelabs.dev/go/oci/ociregistry"
	"cuelabs.dev/go/oci/ociregistry/ocidebug"
	"cuelabs.dev/go/oci/ociregistry/ocimem"
	"github.com/opencontainers/go-digest"
	ocispec "github.com/opencontainers/image-spec/specs-go/v1"
)

type c03world struct {
	blob, blob2 []byte
	man         []byte
	bdig, b2dig ociregistry.Digest
	mdig        ociregistry.Digest
}

// c03mt: the media type of the manifests in play: plain lower case, with upper-case
// letters, or with a parameter (media types are opaque to the registry and must come
// back unchanged)
var c03mt = "application/x-opaque-manifest"

var c03mts = []string{"application/x-opaque-manifest", "application/vnd.acme.Widget.v1+json", "application/vnd.acme.widget.v1+json; version=2"}

func c03prepare(w *c03world, withContent bool) *ocimem.Registry {
	r := ocimem.New()
	ctx := context.Background()
	if withContent {
		_, err := r.PushBlob(ctx, "a/b", ociregistry.Descriptor{MediaType: "application/octet-stream", Digest: w.bdig, Size: int64(len(w.blob))}, bytes.NewReader(w.blob))
		verifAssert(err == nil, "setup-blob")
		_, err = r.PushManifest(ctx, "a/b", "t1", w.man, c03mt)
		verifAssert(err == nil, "setup-manifest")
		// an image manifest naming the tagged manifest as its subject (a referrer)
		bd := ociregistry.Descriptor{MediaType: "application/octet-stream", Digest: w.bdig, Size: int64(len(w.blob))}
		sd := ociregistry.Descriptor{MediaType: c03mt, Digest: w.mdig, Size: int64(len(w.man))}
		ref, merr := json.Marshal(ocispec.Manifest{MediaType: ocispec.MediaTypeImageManifest, Config: bd, Subject: &sd, ArtifactType: "application/x-artifact"})
		verifAssert(merr == nil, "setup-referrer")
		_, err = r.PushManifest(ctx, "a/b", "", ref, ocispec.MediaTypeImageManifest)
		verifAssert(err == nil, "setup-referrer")
	}
	return r
}

var c03std = []error{ociregistry.ErrBlobUnknown, ociregistry.ErrManifestUnknown, ociregistry.ErrNameUnknown, ociregistry.ErrNameInvalid,
	ociregistry.ErrDigestInvalid, ociregistry.ErrDenied, ociregistry.ErrUnsupported, ociregistry.ErrRangeInvalid}

// sameError: same success/failure and the same OCI code; headOnly relaxes to the status
// class for body-less HEAD-based calls (404 for any *_UNKNOWN).
// c03emptyRepo is set by c03call before each call: the addressed repository holds no
// content in either registry (it is unknown, or known but empty). The reference
// semantics allows a repository without content to be reported either as unknown or as
// empty (properties C02/C03 share that model), and the two sides may differ in which of
// the two they do: a push that fails its digest check leaves an empty repository behind
// when it travels as POST + PUT, and none when it is a direct PushBlob. So for such a
// repository NAME_UNKNOWN, BLOB_UNKNOWN and MANIFEST_UNKNOWN count as the same answer,
// as does an empty listing.
// repositories in play: the one with content, an absent one, and a valid name made of
// the words the URL router looks for
var c03repos = []string{"a/b", "c", "x/blobs/uploads/tags/manifests"}

var c03twoCalls bool

var c03emptyRepo bool

// c03emptyAnswerOK: the current call is a listing, for which "unknown repository" on one
// side may pair with a successful empty listing on the other.
var c03emptyAnswerOK bool

func c03notFound(e error) bool {
	return errors.Is(e, ociregistry.ErrBlobUnknown) || errors.Is(e, ociregistry.ErrManifestUnknown) || errors.Is(e, ociregistry.ErrNameUnknown)
}

func c03repoEmpty(w *c03world, r *ocimem.Registry, repo string) bool {
	ctx := context.Background()
	empty := true
	for _, d := range []ociregistry.Digest{w.bdig, w.b2dig} {
		_, err := r.ResolveBlob(ctx, repo, d)
		empty = empty && err != nil
	}
	_, err := r.ResolveManifest(ctx, repo, w.mdig)
	empty = empty && err != nil
	tags, _ := ociregistry.All(r.Tags(ctx, repo, ""))
	return empty && len(tags) == 0
}

func c03sameError(direct, viaHTTP error, headOnly bool) bool {
	if c03emptyRepo && (direct == nil || c03notFound(direct)) && (viaHTTP == nil || c03notFound(viaHTTP)) && (direct != nil || viaHTTP != nil) {
		// unknown vs. empty: only acceptable for answers that carry no content; callers
		// compare contents separately when both succeed
		return c03notFound(direct) && c03notFound(viaHTTP) || c03emptyAnswerOK
	}
	if (direct == nil) != (viaHTTP == nil) {
		return false
	}
	if direct == nil {
		return true
	}
	if headOnly {
		notFound := func(e error) bool {
			return errors.Is(e, ociregistry.ErrBlobUnknown) || errors.Is(e, ociregistry.ErrManifestUnknown) || errors.Is(e, ociregistry.ErrNameUnknown)
		}
		if notFound(direct) {
			return notFound(viaHTTP)
		}
		return true
	}
	ok := true
	for _, s := range c03std {
		ok = ok && errors.Is(direct, s) == errors.Is(viaHTTP, s)
	}
	return ok
}

func c03readAll(r ociregistry.BlobReader) ([]byte, ociregistry.Descriptor, error) {
	defer r.Close()
	d := r.Descriptor()
	data, err := io.ReadAll(r)
	return data, d, err
}

func c03sameDesc(a, b ociregistry.Descriptor) bool {
	return a.Digest == b.Digest && a.Size == b.Size && a.MediaType == b.MediaType
}

func c03compareReaders(rd, rh ociregistry.BlobReader, errD, errH error, label string) {
	verifAssert(c03sameError(errD, errH, false), label+"-same-error")
	if errD != nil || errH != nil {
		return
	}
	dd, descD, e1 := c03readAll(rd)
	dh, descH, e2 := c03readAll(rh)
	verifAssert(e1 == nil && e2 == nil, label+"-reads-complete")
	verifAssert(bytes.Equal(dd, dh), label+"-same-bytes")
	verifAssert(c03sameDesc(descD, descH), label+"-same-descriptor")
}

// c03sameState: both registries answer the same about everything in the universe.
func c03sameState(w *c03world, a, b *ocimem.Registry) bool {
	ctx := context.Background()
	ok := true
	for _, repo := range c03repos {
		for _, d := range []ociregistry.Digest{w.bdig, w.b2dig} {
			da, ea := a.ResolveBlob(ctx, repo, d)
			db, eb := b.ResolveBlob(ctx, repo, d)
			ok = ok && (ea == nil) == (eb == nil) && da.Size == db.Size
		}
		da, ea := a.ResolveManifest(ctx, repo, w.mdig)
		db, eb := b.ResolveManifest(ctx, repo, w.mdig)
		ok = ok && (ea == nil) == (eb == nil) && da.MediaType == db.MediaType
		for _, t := range []string{"t1", "t2"} {
			da, ea := a.ResolveTag(ctx, repo, t)
			db, eb := b.ResolveTag(ctx, repo, t)
			ok = ok && (ea == nil) == (eb == nil) && da.Digest == db.Digest
		}
	}
	return ok
}

func VerifC03_OneHop() {
	w := &c03world{blob: verifBytes("blob", 1), blob2: []byte("zz"), man: []byte("manifest-bytes")}
	w.bdig, w.b2dig, w.mdig = digest.FromBytes(w.blob), digest.FromBytes(w.blob2), digest.FromBytes(w.man)
	calls := verifParam("calls", 1)
	c03twoCalls = calls > 1
	withContent := verifBool("withContent")
	opts := &Options{}
	var regD, regS *ocimem.Registry
	var backend ociregistry.Interface
	if calls == 1 {
		c03mt = c03mts[verifChoose("mediaType", len(c03mts))]
		regD, regS = c03prepare(w, withContent), c03prepare(w, withContent)
		opts.OmitDigestFromTagGetResponse = verifBool("omitDigest")
		opts.OmitLinkHeaderFromResponses = verifBool("omitLink")
		opts.DisableSinglePostUpload = verifBool("noSinglePost")
		backend = regS
		// optionally the logging wrapper sits between the server and the registry
		if verifBool("withDebugWrapper") {
			backend = ocidebug.New(regS, func(string, ...any) {})
		}
	} else {
		// two-call histories: default options, one media type, no wrapper
		c03mt = c03mts[0]
		regD, regS = c03prepare(w, withContent), c03prepare(w, withContent)
		backend = regS
	}
	c, _ := vsStack(backend, opts)
	// calls=1: one call from the prepared state; calls=2 (thorough): every two-call
	// history (the second call's choices are named repo2, digest2, tag2, method2)
	for ci := 0; ci < calls; ci++ {
		sfx := ""
		if ci > 0 {
			sfx = "2"
		}
		c03call(w, regD, regS, c, sfx)
		verifAssert(c03sameState(w, regD, regS), "same-resulting-state")
	}
	verifCover("end")
}

func c03call(w *c03world, regD, regS *ocimem.Registry, c ociregistry.Interface, sfx string) {
	ctx := context.Background()
	nrepos := len(c03repos)
	if c03twoCalls {
		nrepos = 2 // two-call histories: the existing and the missing repository
	}
	repo := c03repos[verifChoose("repo"+sfx, nrepos)]
	c03emptyRepo = c03repoEmpty(w, regD, repo) && c03repoEmpty(w, regS, repo)
	c03emptyAnswerOK = false
	digs := []ociregistry.Digest{w.bdig, w.b2dig, w.mdig}
	dig := digs[verifChoose("digest"+sfx, 3)]
	tag := []string{"t1", "t2"}[verifChoose("tag"+sfx, 2)]
	switch verifChoose("method"+sfx, 15) {
	case 0:
		rd, e1 := regD.GetBlob(ctx, repo, dig)
		rh, e2 := c.GetBlob(ctx, repo, dig)
		c03compareReaders(rd, rh, e1, e2, "GetBlob")
	case 1:
		o0, o1 := verifInt64("o0"), verifInt64("o1")
		verifAssume(o0 >= 0 && o0 < 100 && o1 < 100 && o1 >= -1)
		if c03twoCalls {
			verifAssume(o0 < 4 && o1 < 4) // the blob has one byte
		}
		if sfx != "" {
			verifAssume(o0 != o1) // known finding F10 is reported for the first call only
		}
		rd, e1 := regD.GetBlobRange(ctx, repo, dig, o0, o1)
		rh, e2 := c.GetBlobRange(ctx, repo, dig, o0, o1)
		verifAssert((e1 == nil) == (e2 == nil), "GetBlobRange-same-success")
		if e1 == nil && e2 == nil {
			dd, descD, _ := c03readAll(rd)
			dh, descH, _ := c03readAll(rh)
			verifAssert(bytes.Equal(dd, dh), "GetBlobRange-same-bytes")
			verifAssert(descD.Digest == descH.Digest && descD.Size == descH.Size, "GetBlobRange-describes-whole-blob")
		}
	case 2:
		rd, e1 := regD.GetManifest(ctx, repo, dig)
		rh, e2 := c.GetManifest(ctx, repo, dig)
		c03compareReaders(rd, rh, e1, e2, "GetManifest")
	case 3:
		rd, e1 := regD.GetTag(ctx, repo, tag)
		rh, e2 := c.GetTag(ctx, repo, tag)
		c03compareReaders(rd, rh, e1, e2, "GetTag")
	case 4:
		d1, e1 := regD.ResolveBlob(ctx, repo, dig)
		d2, e2 := c.ResolveBlob(ctx, repo, dig)
		verifAssert(c03sameError(e1, e2, true), "ResolveBlob-same-status-class")
		if e1 == nil && e2 == nil {
			verifAssert(d1.Digest == d2.Digest && d1.Size == d2.Size, "ResolveBlob-same-descriptor")
		}
	case 5:
		d1, e1 := regD.ResolveManifest(ctx, repo, dig)
		d2, e2 := c.ResolveManifest(ctx, repo, dig)
		verifAssert(c03sameError(e1, e2, true), "ResolveManifest-same-status-class")
		if e1 == nil && e2 == nil {
			verifAssert(c03sameDesc(d1, d2), "ResolveManifest-same-descriptor")
		}
	case 6:
		d1, e1 := regD.ResolveTag(ctx, repo, tag)
		d2, e2 := c.ResolveTag(ctx, repo, tag)
		verifAssert(c03sameError(e1, e2, true), "ResolveTag-same-status-class")
		if e1 == nil && e2 == nil {
			verifAssert(c03sameDesc(d1, d2), "ResolveTag-same-descriptor")
		}
	case 7:
		// push blob2 with a right or wrong descriptor
		desc := ociregistry.Descriptor{MediaType: "application/octet-stream", Digest: w.b2dig, Size: int64(len(w.blob2))}
		if verifBool("wrongDigest") {
			desc.Digest = w.bdig
		}
		d1, e1 := regD.PushBlob(ctx, repo, desc, bytes.NewReader(w.blob2))
		d2, e2 := c.PushBlob(ctx, repo, desc, bytes.NewReader(w.blob2))
		verifAssert((e1 == nil) == (e2 == nil), "PushBlob-same-success")
		if e1 == nil && e2 == nil {
			verifAssert(d1.Digest == d2.Digest && d1.Size == d2.Size, "PushBlob-same-descriptor")
		}
	case 8:
		from := c03repos[verifChoose("from"+sfx, nrepos)]
		// (the source repository may be the content-less one)
		c03emptyRepo = c03emptyRepo || (c03repoEmpty(w, regD, from) && c03repoEmpty(w, regS, from))
		d1, e1 := regD.MountBlob(ctx, from, repo, dig)
		d2, e2 := c.MountBlob(ctx, from, repo, dig)
		verifAssert(c03sameError(e1, e2, false), "MountBlob-same-error")
		if e1 == nil && e2 == nil {
			verifAssert(d1.Digest == d2.Digest, "MountBlob-same-digest")
		}
	case 9:
		ptag := []string{"", "t2"}[verifChoose("ptag", 2)]
		data := []byte("second-manifest")
		d1, e1 := regD.PushManifest(ctx, repo, ptag, data, c03mt)
		d2, e2 := c.PushManifest(ctx, repo, ptag, data, c03mt)
		verifAssert((e1 == nil) == (e2 == nil), "PushManifest-same-success")
		if e1 == nil && e2 == nil {
			verifAssert(c03sameDesc(d1, d2), "PushManifest-same-descriptor")
		}
	case 10:
		e1 := regD.DeleteBlob(ctx, repo, dig)
		e2 := c.DeleteBlob(ctx, repo, dig)
		verifAssert(c03sameError(e1, e2, false), "DeleteBlob-same-error")
	case 11:
		e1 := regD.DeleteManifest(ctx, repo, dig)
		e2 := c.DeleteManifest(ctx, repo, dig)
		verifAssert(c03sameError(e1, e2, false), "DeleteManifest-same-error")
	case 12:
		e1 := regD.DeleteTag(ctx, repo, tag)
		e2 := c.DeleteTag(ctx, repo, tag)
		verifAssert(c03sameError(e1, e2, false), "DeleteTag-same-error")
	case 14:
		at := []string{"", "application/x-artifact", "application/x-other"}[verifChoose("artifactType"+sfx, 3)]
		r1, e1 := ociregistry.All(regD.Referrers(ctx, repo, dig, at))
		r2, e2 := ociregistry.All(c.Referrers(ctx, repo, dig, at))
		c03emptyAnswerOK = len(r1) == 0 && len(r2) == 0
		verifAssert(c03sameError(e1, e2, false), "Referrers-same-error")
		if e1 == nil && e2 == nil {
			same := len(r1) == len(r2)
			if same {
				for i := range r1 {
					same = same && c03sameDesc(r1[i], r2[i])
				}
			}
			verifAssert(same, "Referrers-same-items")
		}
	default:
		t1, e1 := ociregistry.All(regD.Tags(ctx, repo, ""))
		t2, e2 := ociregistry.All(c.Tags(ctx, repo, ""))
		c03emptyAnswerOK = len(t1) == 0 && len(t2) == 0
		verifAssert(c03sameError(e1, e2, false), "Tags-same-error")
		if e1 == nil && e2 == nil {
			same := len(t1) == len(t2)
			if same {
				for i := range t1 {
					same = same && t1[i] == t2[i]
				}
			}
			verifAssert(same, "Tags-same-items")
		}
	}
}

func init() {
	verifRegister("VerifC03_OneHop", VerifC03_OneHop)
}
