package ociserver

// C06: the server is total and protocol-conformant on arbitrary HTTP requests.

import (
	"bytes"
	"context"
	"encoding/json"
	"errors"
	"fmt"
	"io"
	"net/http"
	"net/url"
	"strconv"

	"cuelabs.dev/go/oci/ociregistry"
	"cuelabs.dev/go/oci/ociregistry/ociref"
)

const (
	c06dig  = "sha256:aaaaaaaaaaaaaaaaaaaaaaaaaaaaaaaaaaaaaaaaaaaaaaaaaaaaaaaaaaaaaaaa"
	c06blob = "xyz"
)

var c06statusOf = map[string]int{
	"BLOB_UNKNOWN": 404, "BLOB_UPLOAD_INVALID": 416, "BLOB_UPLOAD_UNKNOWN": 404, "DIGEST_INVALID": 400, "MANIFEST_BLOB_UNKNOWN": 404,
	"MANIFEST_INVALID": 400, "MANIFEST_UNKNOWN": 404, "NAME_INVALID": 400, "NAME_UNKNOWN": 404, "SIZE_INVALID": 400,
	"UNAUTHORIZED": 401, "DENIED": 403, "UNSUPPORTED": 400, "TOOMANYREQUESTS": 429, "RANGE_INVALID": 416,
}

type c06closer struct {
	opened, closed int
}

type c06reader struct {
	io.Reader
	desc ociregistry.Descriptor
	c    *c06closer
}

func (r *c06reader) Close() error                       { r.c.closed++; return nil }
func (r *c06reader) Descriptor() ociregistry.Descriptor { return r.desc }

type c06writer struct {
	c       *c06closer
	size    int64
	written int
	fail    error
}

func (w *c06writer) Write(p []byte) (int, error) {
	if w.fail != nil {
		return 0, w.fail
	}
	w.written += len(p)
	return len(p), nil
}
func (w *c06writer) Close() error   { w.c.closed++; return nil }
func (w *c06writer) Size() int64    { return w.size }
func (w *c06writer) ChunkSize() int { return 1 }
func (w *c06writer) ID() string     { return "upload-1" }
func (w *c06writer) Cancel() error  { return nil }
func (w *c06writer) Commit(d ociregistry.Digest) (ociregistry.Descriptor, error) {
	if w.fail != nil {
		return ociregistry.Descriptor{}, w.fail
	}
	return ociregistry.Descriptor{MediaType: "application/octet-stream", Digest: d, Size: int64(w.written)}, nil
}

var c06opaque = errors.New("opaque backend failure")

func c06backendError() error {
	switch verifChoose("backendOutcome", 9) {
	case 0, 1:
		return nil
	case 2:
		return ociregistry.ErrBlobUnknown
	case 3:
		return ociregistry.ErrNameUnknown
	case 4:
		return ociregistry.ErrRangeInvalid
	case 5:
		return fmt.Errorf("context: %w", ociregistry.ErrDenied)
	case 6:
		return c06opaque
	case 7:
		return ociregistry.NewHTTPError(c06opaque, 418, nil, nil)
	}
	return ociregistry.NewError("custom", "CUSTOM_CODE", nil)
}

// c06backend validates every argument it is given and answers arbitrarily.
func c06backend(c *c06closer) ociregistry.Interface {
	okRepo := func(r string) { verifAssert(ociref.IsValidRepository(r), "backend-gets-valid-repository") }
	okDig := func(d ociregistry.Digest) { verifAssert(ociref.IsValidDigest(string(d)), "backend-gets-valid-digest") }
	okTag := func(t string) { verifAssert(ociref.IsValidTag(t), "backend-gets-valid-tag") }
	reader := func(data []byte, size int64, d ociregistry.Digest) (ociregistry.BlobReader, error) {
		if err := c06backendError(); err != nil {
			return nil, err
		}
		c.opened++
		return &c06reader{Reader: bytes.NewReader(data), desc: ociregistry.Descriptor{MediaType: "application/x-thing", Size: size, Digest: d}, c: c}, nil
	}
	writer := func() (ociregistry.BlobWriter, error) {
		if err := c06backendError(); err != nil {
			return nil, err
		}
		c.opened++
		w := &c06writer{c: c, size: verifInt64("writerSize")}
		if verifBool("writerFails") {
			w.fail = ociregistry.ErrRangeInvalid
		}
		return w, nil
	}
	desc := func(d ociregistry.Digest) (ociregistry.Descriptor, error) {
		if err := c06backendError(); err != nil {
			return ociregistry.Descriptor{}, err
		}
		return ociregistry.Descriptor{MediaType: "application/x-thing", Size: verifInt64("descSize"), Digest: d}, nil
	}
	list := func() ociregistry.Seq[string] {
		err := c06backendError()
		return func(yield func(string, error) bool) {
			if !yield("a", nil) {
				return
			}
			if err != nil {
				yield("", err)
				return
			}
			yield("b", nil)
		}
	}
	return &ociregistry.Funcs{
		GetBlob_: func(ctx context.Context, repo string, d ociregistry.Digest) (ociregistry.BlobReader, error) {
			okRepo(repo)
			okDig(d)
			return reader([]byte(c06blob), int64(len(c06blob)), d)
		},
		GetBlobRange_: func(ctx context.Context, repo string, d ociregistry.Digest, o0, o1 int64) (ociregistry.BlobReader, error) {
			okRepo(repo)
			okDig(d)
			n := int64(len(c06blob))
			e := o1
			if o1 < 0 || o1 > n {
				e = n
			}
			if o0 < 0 || o0 > e {
				return nil, ociregistry.ErrRangeInvalid
			}
			return reader([]byte(c06blob)[o0:e], n, d)
		},
		GetManifest_: func(ctx context.Context, repo string, d ociregistry.Digest) (ociregistry.BlobReader, error) {
			okRepo(repo)
			okDig(d)
			return reader([]byte(c06blob), int64(len(c06blob)), d)
		},
		GetTag_: func(ctx context.Context, repo, tag string) (ociregistry.BlobReader, error) {
			okRepo(repo)
			okTag(tag)
			return reader([]byte(c06blob), int64(len(c06blob)), c06dig)
		},
		ResolveBlob_: func(ctx context.Context, repo string, d ociregistry.Digest) (ociregistry.Descriptor, error) {
			okRepo(repo)
			okDig(d)
			return desc(d)
		},
		ResolveManifest_: func(ctx context.Context, repo string, d ociregistry.Digest) (ociregistry.Descriptor, error) {
			okRepo(repo)
			okDig(d)
			return desc(d)
		},
		ResolveTag_: func(ctx context.Context, repo, tag string) (ociregistry.Descriptor, error) {
			okRepo(repo)
			okTag(tag)
			return desc(c06dig)
		},
		PushBlob_: func(ctx context.Context, repo string, d ociregistry.Descriptor, r io.Reader) (ociregistry.Descriptor, error) {
			okRepo(repo)
			okDig(d.Digest)
			io.Copy(io.Discard, r)
			return desc(d.Digest)
		},
		PushBlobChunked_: func(ctx context.Context, repo string, chunkSize int) (ociregistry.BlobWriter, error) {
			okRepo(repo)
			return writer()
		},
		PushBlobChunkedResume_: func(ctx context.Context, repo, id string, offset int64, chunkSize int) (ociregistry.BlobWriter, error) {
			okRepo(repo)
			return writer()
		},
		MountBlob_: func(ctx context.Context, from, to string, d ociregistry.Digest) (ociregistry.Descriptor, error) {
			okRepo(from)
			okRepo(to)
			okDig(d)
			return desc(d)
		},
		PushManifest_: func(ctx context.Context, repo, tag string, data []byte, mt string) (ociregistry.Descriptor, error) {
			okRepo(repo)
			if tag != "" {
				okTag(tag)
			}
			return desc(c06dig)
		},
		DeleteBlob_: func(ctx context.Context, repo string, d ociregistry.Digest) error {
			okRepo(repo)
			okDig(d)
			return c06backendError()
		},
		DeleteManifest_: func(ctx context.Context, repo string, d ociregistry.Digest) error {
			okRepo(repo)
			okDig(d)
			return c06backendError()
		},
		DeleteTag_: func(ctx context.Context, repo, tag string) error {
			okRepo(repo)
			okTag(tag)
			return c06backendError()
		},
		Repositories_: func(ctx context.Context, after string) ociregistry.Seq[string] { return list() },
		Tags_: func(ctx context.Context, repo, after string) ociregistry.Seq[string] {
			okRepo(repo)
			return list()
		},
		Referrers_: func(ctx context.Context, repo string, d ociregistry.Digest, at string) ociregistry.Seq[ociregistry.Descriptor] {
			okRepo(repo)
			okDig(d)
			err := c06backendError()
			return func(yield func(ociregistry.Descriptor, error) bool) {
				if err != nil {
					yield(ociregistry.Descriptor{}, err)
					return
				}
				yield(ociregistry.Descriptor{MediaType: "m", Digest: c06dig, Size: 1}, nil)
			}
		},
	}
}

type c06shape struct {
	method, path, query string
}

var c06shapes = []c06shape{
	{"GET", "/v2/", ""},
	{"GET", "/v2/a/b/blobs/" + c06dig, ""},
	{"HEAD", "/v2/a/b/blobs/" + c06dig, ""},
	{"DELETE", "/v2/a/b/blobs/" + c06dig, ""},
	{"POST", "/v2/a/b/blobs/uploads/", ""},
	{"POST", "/v2/a/b/blobs/uploads/", "digest=" + c06dig},
	{"POST", "/v2/a/b/blobs/uploads/", "mount=" + c06dig + "&from=c/d"},
	{"GET", "/v2/a/b/blobs/uploads/dXBsb2FkLTE", ""},
	{"PATCH", "/v2/a/b/blobs/uploads/dXBsb2FkLTE", ""},
	{"PUT", "/v2/a/b/blobs/uploads/dXBsb2FkLTE", "digest=" + c06dig},
	{"GET", "/v2/a/b/manifests/" + c06dig, ""},
	{"GET", "/v2/a/b/manifests/tag1", ""},
	{"HEAD", "/v2/a/b/manifests/tag1", ""},
	{"HEAD", "/v2/a/b/manifests/" + c06dig, ""},
	{"PUT", "/v2/a/b/manifests/tag1", ""},
	{"PUT", "/v2/a/b/manifests/" + c06dig, ""},
	{"DELETE", "/v2/a/b/manifests/tag1", ""},
	{"DELETE", "/v2/a/b/manifests/" + c06dig, ""},
	{"GET", "/v2/a/b/tags/list", "n=1"},
	{"GET", "/v2/a/b/tags/list", "n=x"},
	{"GET", "/v2/a/b/referrers/" + c06dig, ""},
	{"GET", "/v2/_catalog", "n=5&last=a"},
	// malformed / unusual
	{"GET", "/v2/a/b/manifests/", ""},
	{"GET", "/v2/a//b/manifests/t", ""},
	{"GET", "/v2/A/blobs/" + c06dig, ""},
	{"GET", "/v2/a/blobs/sha256:short", ""},
	{"PUT", "/v2/a/b/blobs/uploads/dXBsb2FkLTE", "digest=bad"},
	{"PATCH", "/v2/a/b/blobs/uploads/!!!", ""},
	{"BREW", "/v2/a/b/tags/list", ""},
	{"GET", "/other", ""},
	{"GET", "/v2/a/b/tags/list", "%zz"},
	{"POST", "/v2/a/b/blobs/uploads/", "mount=" + c06dig + "&from=BAD"},
	// page sizes at and around zero, and beyond int64
	{"GET", "/v2/a/b/tags/list", "n=0"},
	{"GET", "/v2/_catalog", "n=0&last=a"},
	{"GET", "/v2/a/b/tags/list", "n=-1"},
	{"GET", "/v2/_catalog", "n=99999999999999999999"},
	{"GET", "/v2/a/b/referrers/" + c06dig, "n=0"},
}

func c06request() *http.Request {
	sh := c06shapes[verifChoose("shape", len(c06shapes))]
	req := &http.Request{Method: sh.method, URL: &url.URL{Path: sh.path, RawQuery: sh.query}, Header: http.Header{}}
	num := func(name string) string {
		n := verifInt64(name)
		verifAssume(n >= 0 && n < 100)
		return strconv.FormatInt(n, 10)
	}
	hasBody := sh.method == "PUT" || sh.method == "POST" || sh.method == "PATCH"
	// headers and bodies are varied where a handler can look at them: Range on GETs,
	// Content-Range / Content-Length / Content-Type / body on PUT, POST, PATCH
	if hasBody {
		c06bodyAndHeaders(req, num)
		return req.WithContext(context.Background())
	}
	req.Body = http.NoBody
	switch verifChoose("rangeHeader", 10) {
	case 7:
		// boundary values of the int64 arithmetic on range ends
		req.Header.Set("Range", "bytes=0-9223372036854775807")
	case 8:
		req.Header.Set("Range", "bytes=9223372036854775807-")
	case 9:
		req.Header.Set("Range", "bytes=1-18446744073709551615")
	case 1:
		req.Header.Set("Range", "bytes="+num("r0")+"-"+num("r1"))
	case 2:
		req.Header.Set("Range", "bytes="+num("r0")+"-")
	case 3:
		req.Header.Set("Range", "bytes=-5")
	case 4:
		req.Header.Set("Range", "garbage")
	case 5:
		req.Header.Set("Range", "bytes=1-2,4-5")
	case 6:
		req.Header.Set("Range", "bytes= 0 - 1 ")
	}
	return req.WithContext(context.Background())
}

func c06bodyAndHeaders(req *http.Request, num func(string) string) {
	switch verifChoose("contentRange", 4) {
	case 1:
		req.Header.Set("Content-Range", num("c0")+"-"+num("c1"))
	case 2:
		req.Header.Set("Content-Range", "garbage")
	case 3:
		req.Header.Set("Content-Range", "-")
	}
	body := []string{"", "abc", `{"subject":{"digest":"` + c06dig + `"}}`, "{"}[verifChoose("body", 4)]
	req.Body = io.NopCloser(bytes.NewReader([]byte(body)))
	switch verifChoose("contentLength", 3) {
	case 0:
		req.ContentLength = int64(len(body))
	case 1:
		req.ContentLength = -1
	default:
		req.ContentLength = verifInt64("cl")
	}
	switch verifChoose("contentType", 3) {
	case 1:
		req.Header.Set("Content-Type", "application/vnd.oci.image.manifest.v1+json")
	case 2:
		req.Header.Set("Content-Type", "application/x-opaque")
	}
}

func VerifC06_ServeTotal() {
	cl := &c06closer{}
	opts := &Options{}
	if verifParam("loc", 0) != 1 {
		opts.OmitDigestFromTagGetResponse = verifBool("omitDigest")
		opts.OmitLinkHeaderFromResponses = verifBool("omitLink")
		opts.DisableSinglePostUpload = verifBool("noSinglePost")
		opts.DisableReferrersAPI = verifBool("noReferrers")
	} else {
		// (the four Boolean options are left at their defaults in this mode)
		// the two location callbacks, each unset or answering in every documented way
		// (incl. an empty, non-nil slice and an error)
		switch verifChoose("locationsForDescriptor", 5) {
		case 1:
			opts.LocationsForDescriptor = func(bool, ociregistry.Descriptor) ([]string, error) { return nil, nil }
		case 2:
			opts.LocationsForDescriptor = func(bool, ociregistry.Descriptor) ([]string, error) { return []string{}, nil }
		case 3:
			opts.LocationsForDescriptor = func(bool, ociregistry.Descriptor) ([]string, error) {
				return []string{"https://mirror.example/x", "https://other.example/y"}, nil
			}
		case 4:
			opts.LocationsForDescriptor = func(bool, ociregistry.Descriptor) ([]string, error) { return nil, c06opaque }
		}
		switch verifChoose("locationForUploadID", 3) {
		case 1:
			opts.LocationForUploadID = func(id string) (string, error) { return "https://uploads.example/" + id, nil }
		case 2:
			opts.LocationForUploadID = func(id string) (string, error) { return "", c06opaque }
		}
	}
	h := New(c06backend(cl), opts)
	req := c06request()
	rec := &vsRecorder{hdr: http.Header{}}
	h.ServeHTTP(rec, req)
	if !rec.wrote {
		rec.status = 200
	}
	verifObserve("status", rec.status)
	verifAssert(cl.opened == cl.closed, "every-backend-reader-and-writer-is-closed")
	if rec.status >= 400 {
		var errs ociregistry.WireErrors
		verifAssert(rec.hdr.Get("Content-Type") == "application/json", "error-is-json")
		verifAssert(json.Unmarshal(rec.body, &errs) == nil && len(errs.Errors) >= 1, "error-body-is-the-oci-envelope")
		if len(errs.Errors) >= 1 {
			code := errs.Errors[0].Code_
			verifAssert(code != "", "error-has-a-code")
			if st, ok := c06statusOf[code]; ok {
				verifAssert(rec.status == st, "status-agrees-with-error-code")
			}
		}
		verifCover("error")
		return
	}
	// success: the headers the protocol mandates
	hget := func(k string) string { return rec.hdr.Get(k) }
	if cl := hget("Content-Length"); cl != "" && req.Method != "HEAD" {
		verifAssert(cl == strconv.Itoa(len(rec.body)), "content-length-equals-body")
	}
	switch rec.status {
	case 201:
		verifAssert(hget("Location") != "" && hget("Docker-Content-Digest") != "", "created-has-location-and-digest")
	case 202:
		if req.Method != "DELETE" {
			verifAssert(hget("Location") != "" && hget("Range") != "", "accepted-upload-has-location-and-range")
		}
	case 204:
		verifAssert(hget("Location") != "" && hget("Range") != "", "upload-info-has-location-and-range")
	case 206:
		verifAssert(hget("Content-Range") != "" && hget("Content-Length") == strconv.Itoa(len(rec.body)), "partial-content-has-content-range")
	}
	verifCover("success")
}

func init() {
	verifRegister("VerifC06_ServeTotal", VerifC06_ServeTotal)
}
