package ociserver

// C04 (server side of the chunk protocol): the Content-Range / Content-Length codec.

import (
	"net/http"

	"cuelabs.dev/go/oci/ociregistry/internal/ocirequest"
)

func pow10(k int) int64 {
	r := int64(1)
	for i := 0; i < k; i++ {
		r *= 10
	}
	return r
}

// VerifC04_ContentRangeCodec: for every chunk [start, start+n) the header the client
// writes (ocirequest.RangeString) together with Content-Length n is read back by the
// server (chunkRange) as exactly (start, start+n).
func VerifC04_ContentRangeCodec() {
	start, n := verifInt64("start"), verifInt64("n")
	bound := pow10(verifParam("digits", 4))
	verifAssume(start >= 0 && n >= 0 && start < bound && n < bound)
	req := &http.Request{Header: http.Header{}, ContentLength: n}
	req.Header.Set("Content-Range", ocirequest.RangeString(start, start+n))
	s, e, err := chunkRange(req)
	verifObserve("header", req.Header.Get("Content-Range"))
	verifObserve("start", s)
	verifObserve("end", e)
	verifObserve("ok", err == nil)
	verifAssert(err == nil, "chunk-accepted")
	verifAssert(err != nil || (s == start && e == start+n), "same-range")
	verifCover("end")
}

// VerifC04_ContentLengthOnly: without a Content-Range the chunk is [0, Content-Length).
func VerifC04_ContentLengthOnly() {
	n := verifInt64("n")
	req := &http.Request{Header: http.Header{}, ContentLength: n}
	s, e, err := chunkRange(req)
	verifAssert(err == nil, "accepted")
	if n >= 0 {
		verifAssert(s == 0 && e == n, "length-only-range")
	} else {
		verifAssert(s == 0 && e == 0, "unknown-length")
	}
	verifCover("end")
}

// VerifC04_ContentRangeMismatch: a header whose implied length disagrees with
// Content-Length is refused (never silently accepted with a different range).
func VerifC04_ContentRangeMismatch() {
	start, n, cl := verifInt64("start"), verifInt64("n"), verifInt64("cl")
	bound := pow10(verifParam("digits", 3))
	verifAssume(start >= 0 && n >= 1 && cl >= 0 && start < bound && n < bound && cl < bound && cl != n)
	// n >= 1 and start+n-1 >= 1 so that the header is unambiguous
	verifAssume(start+n >= 2)
	req := &http.Request{Header: http.Header{}, ContentLength: cl}
	req.Header.Set("Content-Range", ocirequest.RangeString(start, start+n))
	_, _, err := chunkRange(req)
	verifAssert(err != nil, "mismatch-refused")
	verifCover("end")
}

func init() {
	verifRegister("VerifC04_ContentRangeCodec", VerifC04_ContentRangeCodec)
	verifRegister("VerifC04_ContentLengthOnly", VerifC04_ContentLengthOnly)
	verifRegister("VerifC04_ContentRangeMismatch", VerifC04_ContentRangeMismatch)
}
