package ociserver

// C04 (server side of the chunk protocol): the Content-Range / Content-Length codec.

import (
	"bytes"
	"context"
	"errors"
	"io"
	"net/http"

	"cuelabs.dev/go/oci/ociregistry"
	"cuelabs.dev/go/oci/ociregistry/internal/ocirequest"
	"cuelabs.dev/go/oci/ociregistry/ocimem"
	"github.com/opencontainers/go-digest"
)

func pow10(k int) int64 {
	r := int64(1)
	for i := 0; i < k; i++ {
		r *= 10
	}
	return r
}

// VerifC04_ContentRangeCodec: for every chunk [start, start+n) the header the client
// writes (ocirequest.RangeString) together with Content-Length n is read back by the
// server (chunkRange) as exactly (start, start+n).
func VerifC04_ContentRangeCodec() {
	start, n := verifInt64("start"), verifInt64("n")
	bound := pow10(verifParam("digits", 4))
	verifAssume(start >= 0 && n >= 0 && start < bound && n < bound)
	req := &http.Request{Header: http.Header{}, ContentLength: n}
	req.Header.Set("Content-Range", ocirequest.RangeString(start, start+n))
	s, e, err := chunkRange(req)
	verifObserve("header", req.Header.Get("Content-Range"))
	verifObserve("start", s)
	verifObserve("end", e)
	verifObserve("ok", err == nil)
	verifAssert(err == nil, "chunk-accepted")
	verifAssert(err != nil || (s == start && e == start+n), "same-range")
	verifCover("end")
}

// VerifC04_ContentLengthOnly: without a Content-Range the chunk is [0, Content-Length).
func VerifC04_ContentLengthOnly() {
	n := verifInt64("n")
	req := &http.Request{Header: http.Header{}, ContentLength: n}
	s, e, err := chunkRange(req)
	verifAssert(err == nil, "accepted")
	if n >= 0 {
		verifAssert(s == 0 && e == n, "length-only-range")
	} else {
		verifAssert(s == 0 && e == 0, "unknown-length")
	}
	verifCover("end")
}

// VerifC04_ContentRangeMismatch: a header whose implied length disagrees with
// Content-Length is refused (never silently accepted with a different range).
func VerifC04_ContentRangeMismatch() {
	start, n, cl := verifInt64("start"), verifInt64("n"), verifInt64("cl")
	bound := pow10(verifParam("digits", 3))
	verifAssume(start >= 0 && n >= 1 && cl >= 0 && start < bound && n < bound && cl < bound && cl != n)
	// n >= 1 and start+n-1 >= 1 so that the header is unambiguous
	verifAssume(start+n >= 2)
	req := &http.Request{Header: http.Header{}, ContentLength: cl}
	req.Header.Set("Content-Range", ocirequest.RangeString(start, start+n))
	_, _, err := chunkRange(req)
	verifAssert(err != nil, "mismatch-refused")
	verifCover("end")
}

func init() {
	verifRegister("VerifC04_ContentRangeCodec", VerifC04_ContentRangeCodec)
	verifRegister("VerifC04_ContentLengthOnly", VerifC04_ContentLengthOnly)
	verifRegister("VerifC04_ContentRangeMismatch", VerifC04_ContentRangeMismatch)
}

// ---- client-side chunked writer through the stack

type c04smallChunkWriter struct {
	ociregistry.BlobWriter
	min int
}

func (w c04smallChunkWriter) ChunkSize() int { return w.min }

// c04backend is the in-memory registry with a configurable minimum chunk size (the real
// one reports 8 KiB, which would force multi-kilobyte contents).
type c04backend struct {
	*ocimem.Registry
	min int
}

func (b c04backend) PushBlobChunked(ctx context.Context, repo string, chunkSize int) (ociregistry.BlobWriter, error) {
	w, err := b.Registry.PushBlobChunked(ctx, repo, chunkSize)
	if err != nil {
		return nil, err
	}
	return c04smallChunkWriter{w, b.min}, nil
}

func (b c04backend) PushBlobChunkedResume(ctx context.Context, repo, id string, offset int64, chunkSize int) (ociregistry.BlobWriter, error) {
	w, err := b.Registry.PushBlobChunkedResume(ctx, repo, id, offset, chunkSize)
	if err != nil {
		return nil, err
	}
	return c04smallChunkWriter{w, b.min}, nil
}

// VerifC04_ClientChunked: any partition of a content into writes, any chunk-size hint,
// close-and-resume at any write boundary (at the reported size, or asking the registry
// with -1), over client -> server -> in-memory registry: the committed blob is exactly
// the concatenation of the written bytes.
func VerifC04_ClientChunked() {
	mem := ocimem.New()
	min := 1 + verifChoose("registryMinChunk", 2)
	c, _ := vsStack(c04backend{mem, min}, nil)
	ctx := context.Background()
	hint := []int{-1, 0, 1, 2, 3}[verifChoose("chunkSizeHint", 5)]
	w, err := c.PushBlobChunked(ctx, "a/b", hint)
	verifAssert(err == nil, "upload-starts")
	if err != nil {
		return
	}
	nw := verifParam("writes", 3)
	k := verifParam("maxlen", 2)
	var all []byte
	for i := 0; i < nw; i++ {
		chunk := verifBytes("chunk", k)
		n, err := w.Write(chunk)
		verifAssert(err == nil && n == len(chunk), "write-ok")
		all = append(all, chunk...)
		verifAssert(w.Size() == int64(len(all)), "size-is-total-written")
		switch verifChoose("resume", 3) {
		case 1:
			id, size := w.ID(), w.Size()
			verifAssert(w.Close() == nil, "close-flushes")
			w, err = c.PushBlobChunkedResume(ctx, "a/b", id, size, hint)
			verifAssert(err == nil, "resume-at-reported-size")
		case 2:
			// resuming with -1 after exactly one byte is excluded by the property (the
			// upload-status Range header cannot tell zero bytes from one)
			if len(all) != 1 {
				id := w.ID()
				verifAssert(w.Close() == nil, "close-flushes")
				w, err = c.PushBlobChunkedResume(ctx, "a/b", id, -1, hint)
				verifAssert(err == nil, "resume-asking-for-offset")
				if err == nil {
					verifAssert(w.Size() == int64(len(all)), "resumed-size-is-bytes-received")
				}
			}
		}
		if err != nil {
			return
		}
	}
	dig := digest.FromBytes(all)
	desc, err := w.Commit(dig)
	verifAssert(err == nil, "commit-ok")
	if err != nil {
		return
	}
	verifAssert(desc.Size == int64(len(all)) && desc.Digest == dig, "commit-descriptor")
	rd, err := mem.GetBlob(ctx, "a/b", dig)
	verifAssert(err == nil, "committed-blob-found")
	if err == nil {
		got, _ := io.ReadAll(rd)
		verifAssert(bytes.Equal(got, all), "committed-bytes-are-the-concatenation-in-order")
	}
	verifCover("end")
}

// VerifC04_ClientWrongOffset: data sent at an offset other than what the registry has is
// refused with RANGE_INVALID (416) and does not alter the upload; a wrong commit digest
// stores nothing.
func VerifC04_ClientWrongOffset() {
	mem := ocimem.New()
	c, _ := vsStack(c04backend{mem, 1}, nil)
	ctx := context.Background()
	w, err := c.PushBlobChunked(ctx, "a/b", 1)
	verifAssert(err == nil, "upload-starts")
	first := []byte("ab")
	w.Write(first)
	id := w.ID()
	verifAssert(w.Close() == nil, "first-chunk-flushed")
	offset := verifInt64("offset")
	verifAssume(offset >= 0 && offset < 1000)
	w2, err := c.PushBlobChunkedResume(ctx, "a/b", id, offset, 1)
	verifAssert(err == nil, "resume-is-local")
	more := verifBytes("more", 2)
	verifAssume(len(more) > 0)
	_, werr := w2.Write(more)
	cerr := w2.Close()
	ferr := werr
	if ferr == nil {
		ferr = cerr
	}
	if offset == 2 {
		verifAssert(ferr == nil, "right-offset-accepted")
	} else {
		verifAssert(ferr != nil && errors.Is(ferr, ociregistry.ErrRangeInvalid), "wrong-offset-is-RANGE_INVALID")
		// the upload is unchanged: resuming properly still sees two bytes
		w3, err := c.PushBlobChunkedResume(ctx, "a/b", id, -1, 1)
		verifAssert(err == nil && w3.Size() == 2, "refused-chunk-left-upload-unchanged")
	}
	// committing with a wrong digest fails and stores nothing
	w4, err := c.PushBlobChunkedResume(ctx, "a/b", id, -1, 1)
	if err == nil {
		bad := digest.FromBytes([]byte("something else"))
		_, err := w4.Commit(bad)
		verifAssert(err != nil, "wrong-digest-commit-fails")
		_, gerr := mem.GetBlob(ctx, "a/b", bad)
		verifAssert(gerr != nil, "failed-commit-stores-nothing")
	}
	verifCover("end")
}

func init() {
	verifRegister("VerifC04_ClientChunked", VerifC04_ClientChunked)
	verifRegister("VerifC04_ClientWrongOffset", VerifC04_ClientWrongOffset)
}
