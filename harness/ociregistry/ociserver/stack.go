package ociserver

// In-memory HTTP "wire" for the client->server stack harnesses: the client's transport
// hands each *http.Request to the server handler and turns what the handler wrote into
// an *http.Response (what net/http would do, minus framing).

import (
	"bytes"
	"io"
	"net/http"
	"strconv"

	"cuelabs.dev/go/oci/ociregistry"
	"cuelabs.dev/go/oci/ociregistry/ociclient"
)

type vsRecorder struct {
	hdr    http.Header
	status int
	body   []byte
	wrote  bool
}

func (r *vsRecorder) Header() http.Header { return r.hdr }
func (r *vsRecorder) WriteHeader(code int) {
	if !r.wrote {
		r.status = code
		r.wrote = true
	}
}
func (r *vsRecorder) Write(p []byte) (int, error) {
	if !r.wrote {
		r.WriteHeader(200)
	}
	r.body = append(r.body, p...)
	return len(p), nil
}

type vsTransport struct {
	h        http.Handler
	requests []*http.Request
	last     *vsRecorder
}

func (t *vsTransport) RoundTrip(req *http.Request) (*http.Response, error) {
	t.requests = append(t.requests, req)
	rec := &vsRecorder{hdr: http.Header{}}
	if req.Body == nil {
		req.Body = http.NoBody
	}
	t.h.ServeHTTP(rec, req)
	if !rec.wrote {
		rec.status = 200
	}
	t.last = rec
	resp := &http.Response{
		StatusCode:    rec.status,
		Status:        strconv.Itoa(rec.status) + " " + http.StatusText(rec.status),
		Header:        rec.hdr,
		Request:       req,
		ContentLength: int64(len(rec.body)),
	}
	if cl := rec.hdr.Get("Content-Length"); cl != "" {
		if n, err := strconv.ParseInt(cl, 10, 64); err == nil {
			resp.ContentLength = n
		}
	}
	if req.Method == "HEAD" {
		resp.Body = http.NoBody
	} else {
		resp.Body = io.NopCloser(bytes.NewReader(rec.body))
	}
	return resp, nil
}

func vsStack(backend ociregistry.Interface, opts *Options) (ociregistry.Interface, *vsTransport) {
	tr := &vsTransport{h: New(backend, opts)}
	c, err := ociclient.New("h.example", &ociclient.Options{Transport: tr})
	if err != nil {
		panic(err)
	}
	return c, tr
}

// vsStackHandler: a client over its own in-memory wire to an existing handler (several
// clients may share one server).
func vsStackHandler(h http.Handler) (ociregistry.Interface, *vsTransport) {
	tr := &vsTransport{h: h}
	c, err := ociclient.New("h.example", &ociclient.Options{Transport: tr})
	if err != nil {
		panic(err)
	}
	return c, tr
}
