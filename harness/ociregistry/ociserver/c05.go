package ociserver

// C05 (paging stack): client pager <-> server paging <-> a backend holding a sorted list.

import (
	"context"
	"errors"

	"cuelabs.dev/go/oci/ociregistry"
	"cuelabs.dev/go/oci/ociregistry/ociclient"
)

var c05menu = []string{"a", "b", "c.d", "e_f", "g"}

func c05backend(have []string, failAfter int, backendErr error) *ociregistry.Funcs {
	list := func(after string) ociregistry.Seq[string] {
		return func(yield func(string, error) bool) {
			n := 0
			for _, x := range have {
				if x > after {
					if n == failAfter {
						yield("", backendErr)
						return
					}
					n++
					if !yield(x, nil) {
						return
					}
				}
			}
		}
	}
	return &ociregistry.Funcs{
		Tags_: func(ctx context.Context, repo, after string) ociregistry.Seq[string] {
			if repo != "a/b" {
				return ociregistry.ErrorSeq[string](ociregistry.ErrNameUnknown)
			}
			return list(after)
		},
		Repositories_: func(ctx context.Context, after string) ociregistry.Seq[string] { return list(after) },
	}
}

// VerifC05_PagingStack: any subset of a 5-name menu, any client page size, any server
// page limit, Link headers on or off, any start point from a menu (absent, equal to an
// element, between elements, beyond the end, URL metacharacters), consumers stopping
// after k items.
func VerifC05_PagingStack() {
	var have []string
	for _, x := range c05menu {
		if verifBool("has") {
			have = append(have, x)
		}
	}
	pageSize := 1 + verifChoose("pageSize", verifParam("maxpage", 3))
	maxList := []int{0, 1, 2, 1000}[verifChoose("maxListPageSize", 4)]
	opts := &Options{OmitLinkHeaderFromResponses: verifBool("omitLink"), MaxListPageSize: maxList}
	after := []string{"", "a", "b", "bb", "zzz", "a&n=9", "%41", "c+d"}[verifChoose("startAfter", 8)]
	catalog := verifBool("catalog")
	stopAfter := verifChoose("stopAfter", len(c05menu)+1) // 0 = never
	tr := &vsTransport{h: New(c05backend(have, -1, nil), opts)}
	c, err := ociclient.New("h.example", &ociclient.Options{Transport: tr, ListPageSize: pageSize})
	verifAssert(err == nil, "client")
	var seq ociregistry.Seq[string]
	if catalog {
		seq = c.Repositories(context.Background(), after)
	} else {
		seq = c.Tags(context.Background(), "a/b", after)
	}
	var got []string
	var gotErr error
	callsAfterEnd, ended := 0, false
	seq(func(x string, err error) bool {
		if ended {
			callsAfterEnd++
		}
		if err != nil {
			gotErr = err
			ended = true
			return true
		}
		got = append(got, x)
		if len(got) == stopAfter {
			ended = true
			return false
		}
		return true
	})
	verifAssert(callsAfterEnd == 0, "no-call-after-stop-or-error")
	var want []string
	for _, x := range have {
		if x > after {
			want = append(want, x)
		}
	}
	if maxList > 0 && pageSize > maxList {
		verifAssert(gotErr != nil && len(got) == 0 && errors.Is(gotErr, ociregistry.ErrUnsupported), "page-size-over-server-limit-is-an-error")
		verifCover("over-limit")
		return
	}
	verifAssert(gotErr == nil, "no-error")
	if stopAfter != 0 && len(want) >= stopAfter {
		want = want[:stopAfter]
	}
	same := len(got) == len(want)
	if same {
		for i := range got {
			same = same && got[i] == want[i]
		}
	}
	verifAssert(same, "exactly-the-items-after-start-in-order-once")
	verifAssert(len(tr.requests) <= len(want)/pageSize+2, "bounded-number-of-page-requests")
	verifCover("end")
}

// VerifC05_PagingBackendError: a backend failure mid-listing surfaces as an error, never
// as a silently shortened list.
func VerifC05_PagingBackendError() {
	have := c05menu
	failAfter := verifChoose("failAfter", len(have)+1)
	pageSize := 1 + verifChoose("pageSize", 3)
	berr := ociregistry.ErrDenied
	tr := &vsTransport{h: New(c05backend(have, failAfter, berr), &Options{OmitLinkHeaderFromResponses: verifBool("omitLink")})}
	c, _ := ociclient.New("h.example", &ociclient.Options{Transport: tr, ListPageSize: pageSize})
	got, err := ociregistry.All(c.Tags(context.Background(), "a/b", ""))
	if err == nil {
		verifAssert(len(got) == len(have), "complete-when-no-error")
	} else {
		verifAssert(errors.Is(err, ociregistry.ErrDenied), "backend-error-code-kept")
		verifCover("error")
	}
	// a failure position inside the list is never masked (each page fetch restarts the backend listing,
	// so only a failure before the end of some page can show)
	if failAfter < pageSize {
		verifAssert(err != nil, "early-failure-surfaces")
	}
	verifCover("end")
}

func init() {
	verifRegister("VerifC05_PagingStack", VerifC05_PagingStack)
	verifRegister("VerifC05_PagingBackendError", VerifC05_PagingBackendError)
}
