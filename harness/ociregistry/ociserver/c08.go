package ociserver

// C08 (HTTP part): concurrent requests served over one in-memory registry. Two clients
// (one per goroutine, each with its own in-memory wire) share one server handler and
// one registry; the scheduler pre-empts after every mutex release, the vector-clock
// detector watches every heap access of repository code (client, server, registry), and
// the concurrent outcome must equal one of the two sequential orders.

import (
	"bytes"
	"context"
	"errors"
	"fmt"
	"io"
	"sync"

	"cuelabs.dev/go/oci/ociregistry"
	"cuelabs.dev/go/oci/ociregistry/ocimem"
	"github.com/opencontainers/go-digest"
)

type c08sworld struct {
	blob, blob2, man1, man2 []byte
}

func c08sprepare() (*ocimem.Registry, *c08sworld) {
	w := &c08sworld{blob: []byte("b1"), blob2: []byte("b2"), man1: []byte("manifest-1"), man2: []byte("manifest-2")}
	r := ocimem.New()
	ctx := context.Background()
	r.PushBlob(ctx, "r", ociregistry.Descriptor{MediaType: "application/octet-stream", Digest: digest.FromBytes(w.blob), Size: 2}, bytes.NewReader(w.blob))
	r.PushManifest(ctx, "r", "t", w.man1, "application/x-opaque")
	return r, w
}

func c08sclass(err error) string {
	switch {
	case err == nil:
		return "ok"
	case errors.Is(err, ociregistry.ErrBlobUnknown):
		return "BLOB_UNKNOWN"
	case errors.Is(err, ociregistry.ErrManifestUnknown):
		return "MANIFEST_UNKNOWN"
	case errors.Is(err, ociregistry.ErrNameUnknown):
		return "NAME_UNKNOWN"
	case errors.Is(err, ociregistry.ErrDenied):
		return "DENIED"
	}
	return "other"
}

const c08snops = 9

func c08sop(c ociregistry.Interface, w *c08sworld, k int) string {
	ctx := context.Background()
	switch k {
	case 0:
		rd, err := c.GetTag(ctx, "r", "t")
		if err != nil {
			return "GetTag:" + c08sclass(err)
		}
		data, rerr := io.ReadAll(rd)
		rd.Close()
		return fmt.Sprint("GetTag:ok:", string(data), ":", rerr == nil)
	case 1:
		d, err := c.ResolveTag(ctx, "r", "t")
		return "ResolveTag:" + c08sclass(err) + ":" + string(d.Digest)
	case 2:
		_, err := c.PushManifest(ctx, "r", "t", w.man2, "application/x-opaque")
		return "Retag:" + c08sclass(err)
	case 3:
		return "DeleteManifest1:" + c08sclass(c.DeleteManifest(ctx, "r", digest.FromBytes(w.man1)))
	case 4:
		return "DeleteTag:" + c08sclass(c.DeleteTag(ctx, "r", "t"))
	case 5:
		_, err := c.PushBlob(ctx, "r", ociregistry.Descriptor{MediaType: "application/octet-stream", Digest: digest.FromBytes(w.blob2), Size: 2}, bytes.NewReader(w.blob2))
		return "PushBlob2:" + c08sclass(err)
	case 6:
		rd, err := c.GetBlob(ctx, "r", digest.FromBytes(w.blob))
		if err != nil {
			return "GetBlob:" + c08sclass(err)
		}
		data, rerr := io.ReadAll(rd)
		rd.Close()
		return fmt.Sprint("GetBlob:ok:", string(data), ":", rerr == nil)
	case 7:
		return "DeleteBlob:" + c08sclass(c.DeleteBlob(ctx, "r", digest.FromBytes(w.blob)))
	default:
		tags, err := ociregistry.All(c.Tags(ctx, "r", ""))
		return fmt.Sprint("Tags:", c08sclass(err), ":", len(tags))
	}
}

func c08sstate(r *ocimem.Registry, w *c08sworld) string {
	ctx := context.Background()
	d, err := r.ResolveTag(ctx, "r", "t")
	s := fmt.Sprint("tag:", c08sclass(err), ":", d.Digest, ";")
	for _, m := range [][]byte{w.man1, w.man2} {
		_, err := r.ResolveManifest(ctx, "r", digest.FromBytes(m))
		s += c08sclass(err) + ";"
	}
	for _, b := range [][]byte{w.blob, w.blob2} {
		_, err := r.ResolveBlob(ctx, "r", digest.FromBytes(b))
		s += c08sclass(err) + ";"
	}
	return s
}

func VerifC08_ServerConcurrent() {
	a := verifChoose("opA", c08snops)
	b := verifChoose("opB", c08snops)
	b2 := verifChoose("opB2", c08snops+1) // the last value: B issues a single request
	opts := &Options{OmitDigestFromTagGetResponse: verifBool("omitDigest")}
	var refs []string
	for pos := 0; pos < 3; pos++ {
		if b2 == c08snops && pos == 2 {
			break
		}
		refs = append(refs, verifMemo(fmt.Sprint("ref/", a, "/", b, "/", b2, "/", opts.OmitDigestFromTagGetResponse, "/", pos), func() string {
			r, w := c08sprepare()
			c, _ := vsStack(r, opts)
			var ra, rb, rb2 string
			if pos == 0 {
				ra = c08sop(c, w, a)
			}
			rb = c08sop(c, w, b)
			if pos == 1 {
				ra = c08sop(c, w, a)
			}
			if b2 < c08snops {
				rb2 = c08sop(c, w, b2)
			}
			if pos == 2 {
				ra = c08sop(c, w, a)
			}
			return ra + "|" + rb + "|" + rb2 + "|" + c08sstate(r, w)
		}))
	}
	r, w := c08sprepare()
	h := New(r, opts)
	mkClient := func() ociregistry.Interface {
		c, _ := vsStackHandler(h)
		return c
	}
	ca, cb := mkClient(), mkClient()
	verifRaceDetect()
	verifPreemptive(true)
	verifGoID(0)
	var ra, rb, rb2 string
	var wg sync.WaitGroup
	wg.Add(2)
	go func() {
		defer wg.Done()
		verifGoID(1)
		ra = c08sop(ca, w, a)
	}()
	go func() {
		defer wg.Done()
		verifGoID(2)
		rb = c08sop(cb, w, b)
		if b2 < c08snops {
			rb2 = c08sop(cb, w, b2)
		}
	}()
	wg.Wait()
	verifPreemptive(false)
	verifAssertNoRaces("no-data-race")
	got := ra + "|" + rb + "|" + rb2 + "|" + c08sstate(r, w)
	ok := false
	for _, ref := range refs {
		ok = ok || got == ref
	}
	if !ok {
		verifDebug("got", got)
		for _, ref := range refs {
			verifDebug("ref", ref)
		}
	}
	verifAssert(ok, "concurrent-outcome-equals-some-sequential-order")
	verifCover("end")
}

func init() {
	verifRegister("VerifC08_ServerConcurrent", VerifC08_ServerConcurrent)
}
