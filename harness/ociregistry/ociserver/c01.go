package ociserver

// C01 (client -> server -> in-memory registry stack).

import (
	"bytes"
	"context"
	"io"

	"cuelabs.dev/go/oci/ociregistry"
	"cuelabs.dev/go/oci/ociregistry/ocimem"
	"github.com/opencontainers/go-digest"
)

// VerifC01_StackPushGet: a blob pushed through the HTTP client is served back exactly,
// in full and by range.
func VerifC01_StackPushGet() {
	content := verifBytes("content", verifParam("maxlen", 2))
	mem := ocimem.New()
	c, _ := vsStack(mem, nil)
	ctx := context.Background()
	dig := digest.FromBytes(content)
	desc := ociregistry.Descriptor{MediaType: "application/octet-stream", Digest: dig, Size: int64(len(content))}
	_, err := c.PushBlob(ctx, "a/b", desc, bytes.NewReader(content))
	verifAssert(err == nil, "push-through-http-accepted")
	if err != nil {
		return
	}
	rd, err := c.GetBlob(ctx, "a/b", dig)
	verifAssert(err == nil, "get-through-http-ok")
	if err != nil {
		return
	}
	got, rerr := io.ReadAll(rd)
	rd.Close()
	verifAssert(rerr == nil && bytes.Equal(got, content), "served-bytes-are-pushed-bytes")
	gd := rd.Descriptor()
	verifAssert(gd.Digest == dig && gd.Size == int64(len(content)), "descriptor-describes-content")
	verifCover("end")
}

// VerifC01_StackRange: a range read through client -> server -> registry never ends
// cleanly with bytes other than the requested slice: it yields exactly
// content[o0:min(o1,len)] (o1 < 0: to the end) while describing the whole blob, or it
// fails (on the request or while reading).
func VerifC01_StackRange() {
	content := verifBytes("content", verifParam("maxlen", 3))
	mem := ocimem.New()
	ctx := context.Background()
	dig := digest.FromBytes(content)
	_, err := mem.PushBlob(ctx, "a/b", ociregistry.Descriptor{MediaType: "application/octet-stream", Digest: dig, Size: int64(len(content))}, bytes.NewReader(content))
	verifAssert(err == nil, "setup")
	c, _ := vsStack(mem, nil)
	o0, o1 := verifInt64("o0"), verifInt64("o1")
	verifAssume(o0 >= 0 && o0 < 1000 && o1 >= -1 && o1 < 1000)
	n := int64(len(content))
	rd, err := c.GetBlobRange(ctx, "a/b", dig, o0, o1)
	if err != nil {
		verifCover("refused")
		return
	}
	got, rerr := io.ReadAll(rd)
	rd.Close()
	if rerr != nil {
		verifCover("read-error")
		return
	}
	// a clean end-of-stream: the bytes must be the requested slice
	end := o1
	if end < 0 || end > n {
		end = n
	}
	valid := o0 <= end
	verifAssert(valid, "clean-read-only-for-a-valid-range")
	if valid {
		verifAssert(int64(len(got)) == end-o0, "range-read-has-the-slice-length")
		same := int64(len(got)) == end-o0
		if same {
			for i := range got {
				same = same && got[i] == content[o0+int64(i)]
			}
		}
		verifAssert(same, "range-read-yields-exactly-the-slice")
	}
	gd := rd.Descriptor()
	verifAssert(gd.Digest == dig && gd.Size == n, "range-read-describes-the-whole-blob")
	verifCover("end")
}

func init() {
	verifRegister("VerifC01_StackRange", VerifC01_StackRange)
	verifRegister("VerifC01_StackPushGet", VerifC01_StackPushGet)
}
