package ociserver

// C01 (client -> server -> in-memory registry stack).

import (
	"bytes"
	"context"
	"io"

	"cuelabs.dev/go/oci/ociregistry"
	"cuelabs.dev/go/oci/ociregistry/ocimem"
	"github.com/opencontainers/go-digest"
)

// VerifC01_StackPushGet: a blob pushed through the HTTP client is served back exactly,
// in full and by range.
func VerifC01_StackPushGet() {
	content := verifBytes("content", verifParam("maxlen", 2))
	mem := ocimem.New()
	c, _ := vsStack(mem, nil)
	ctx := context.Background()
	dig := digest.FromBytes(content)
	desc := ociregistry.Descriptor{MediaType: "application/octet-stream", Digest: dig, Size: int64(len(content))}
	_, err := c.PushBlob(ctx, "a/b", desc, bytes.NewReader(content))
	verifAssert(err == nil, "push-through-http-accepted")
	if err != nil {
		return
	}
	rd, err := c.GetBlob(ctx, "a/b", dig)
	verifAssert(err == nil, "get-through-http-ok")
	if err != nil {
		return
	}
	got, rerr := io.ReadAll(rd)
	rd.Close()
	verifAssert(rerr == nil && bytes.Equal(got, content), "served-bytes-are-pushed-bytes")
	gd := rd.Descriptor()
	verifAssert(gd.Digest == dig && gd.Size == int64(len(content)), "descriptor-describes-content")
	verifCover("end")
}

func init() {
	verifRegister("VerifC01_StackPushGet", VerifC01_StackPushGet)
}
