package ociserver

// C01 (client -> server -> in-memory registry stack).

import (
	"bytes"
	"context"
	"io"
	"net/http"
	"strconv"

	"cuelabs.dev/go/oci/ociregistry"
	"cuelabs.dev/go/oci/ociregistry/ociclient"
	"cuelabs.dev/go/oci/ociregistry/ocimem"
	"github.com/opencontainers/go-digest"
)

// VerifC01_StackPushGet: a blob pushed through the HTTP client is served back exactly,
// in full and by range.
func VerifC01_StackPushGet() {
	content := verifBytes("content", verifParam("maxlen", 2))
	mem := ocimem.New()
	c, _ := vsStack(mem, nil)
	ctx := context.Background()
	dig := digest.FromBytes(content)
	desc := ociregistry.Descriptor{MediaType: "application/octet-stream", Digest: dig, Size: int64(len(content))}
	_, err := c.PushBlob(ctx, "a/b", desc, bytes.NewReader(content))
	verifAssert(err == nil, "push-through-http-accepted")
	if err != nil {
		return
	}
	rd, err := c.GetBlob(ctx, "a/b", dig)
	verifAssert(err == nil, "get-through-http-ok")
	if err != nil {
		return
	}
	got, rerr := io.ReadAll(rd)
	rd.Close()
	verifAssert(rerr == nil && bytes.Equal(got, content), "served-bytes-are-pushed-bytes")
	gd := rd.Descriptor()
	verifAssert(gd.Digest == dig && gd.Size == int64(len(content)), "descriptor-describes-content")
	verifCover("end")
}

// VerifC01_StackRange: a range read through client -> server -> registry never ends
// cleanly with bytes other than the requested slice: it yields exactly
// content[o0:min(o1,len)] (o1 < 0: to the end) while describing the whole blob, or it
// fails (on the request or while reading).
func VerifC01_StackRange() {
	content := verifBytes("content", verifParam("maxlen", 3))
	mem := ocimem.New()
	ctx := context.Background()
	dig := digest.FromBytes(content)
	_, err := mem.PushBlob(ctx, "a/b", ociregistry.Descriptor{MediaType: "application/octet-stream", Digest: dig, Size: int64(len(content))}, bytes.NewReader(content))
	verifAssert(err == nil, "setup")
	c, _ := vsStack(mem, nil)
	o0, o1 := verifInt64("o0"), verifInt64("o1")
	verifAssume(o0 >= 0 && o0 < 1000 && o1 >= -1 && o1 < 1000)
	n := int64(len(content))
	rd, err := c.GetBlobRange(ctx, "a/b", dig, o0, o1)
	if err != nil {
		verifCover("refused")
		return
	}
	got, rerr := io.ReadAll(rd)
	rd.Close()
	if rerr != nil {
		verifCover("read-error")
		return
	}
	// a clean end-of-stream: the bytes must be the requested slice
	end := o1
	if end < 0 || end > n {
		end = n
	}
	valid := o0 <= end
	verifAssert(valid, "clean-read-only-for-a-valid-range")
	if valid {
		verifAssert(int64(len(got)) == end-o0, "range-read-has-the-slice-length")
		same := int64(len(got)) == end-o0
		if same {
			for i := range got {
				same = same && got[i] == content[o0+int64(i)]
			}
		}
		verifAssert(same, "range-read-yields-exactly-the-slice")
	}
	gd := rd.Descriptor()
	verifAssert(gd.Digest == dig && gd.Size == n, "range-read-describes-the-whole-blob")
	verifCover("end")
}

// c01corrupt is a wire that lets the real server answer and then replaces the body of
// the GET response with other bytes and/or a different declared length and/or another
// digest header: what a broken or malicious server could send.
type c01corrupt struct {
	inner   *vsTransport
	body    []byte
	mode    int
	clen    int64
	applied bool
}

func (t *c01corrupt) RoundTrip(req *http.Request) (*http.Response, error) {
	resp, err := t.inner.RoundTrip(req)
	if err != nil || req.Method != "GET" || resp.StatusCode != 200 {
		return resp, err
	}
	t.applied = true
	switch t.mode {
	case 0: // other bytes, length header kept
		resp.Body = io.NopCloser(bytes.NewReader(t.body))
	case 1: // other bytes, length header agrees with them
		resp.Body = io.NopCloser(bytes.NewReader(t.body))
		resp.ContentLength = int64(len(t.body))
		resp.Header.Set("Content-Length", strconv.Itoa(len(t.body)))
	case 2: // right bytes, arbitrary declared length
		resp.ContentLength = t.clen
	default: // other bytes, arbitrary declared length, no digest header
		resp.Body = io.NopCloser(bytes.NewReader(t.body))
		resp.ContentLength = t.clen
		resp.Header.Del("Docker-Content-Digest")
	}
	return resp, nil
}

// VerifC01_ClientVerifies: a complete read through the HTTP client of content that does
// not match its descriptor (wrong bytes, too short, too long, wrong declared length)
// ends in an error, never in a clean end-of-stream: whenever the read of a blob, a
// manifest by digest or a manifest by tag ends cleanly, the bytes are the pushed bytes.
func VerifC01_ClientVerifies() {
	k := verifParam("maxlen", 2)
	content := verifBytes("content", k)
	mem := ocimem.New()
	ctx := context.Background()
	dig := digest.FromBytes(content)
	_, err := mem.PushBlob(ctx, "a/b", ociregistry.Descriptor{MediaType: "application/octet-stream", Digest: dig, Size: int64(len(content))}, bytes.NewReader(content))
	verifAssert(err == nil, "setup")
	_, err = mem.PushManifest(ctx, "a/b", "t", content, "application/x-opaque")
	verifAssert(err == nil, "setup")
	tr := &c01corrupt{inner: &vsTransport{h: New(mem, nil)}, body: verifBytes("served", k+1), mode: verifChoose("corruption", 4)}
	tr.clen = []int64{-1, 0, 1, 2, 3, 4, 131072, 131073}[verifChoose("declaredLength", 8)]
	c, cerr := ociclient.New("h.example", &ociclient.Options{Transport: tr})
	verifAssert(cerr == nil, "client")
	var rd ociregistry.BlobReader
	read := verifChoose("read", 3)
	switch read {
	case 0:
		rd, err = c.GetBlob(ctx, "a/b", dig)
	case 1:
		rd, err = c.GetManifest(ctx, "a/b", dig)
	default:
		rd, err = c.GetTag(ctx, "a/b", "t")
	}
	if err != nil {
		verifCover("refused")
		return
	}
	got, rerr := io.ReadAll(rd)
	rd.Close()
	if rerr != nil {
		verifCover("read-error")
		return
	}
	d := rd.Descriptor()
	// whatever was read cleanly is what the reader's descriptor describes ...
	verifAssert(d.Size == int64(len(got)) && d.Digest == digest.FromBytes(got), "a-clean-read-matches-its-descriptor")
	if read != 2 {
		// ... and for a read by digest that is the digest asked for, hence the pushed bytes
		// (a read by tag has no digest to check against when the server sends none)
		verifAssert(d.Digest == dig, "a-clean-read-describes-the-requested-digest")
		verifAssert(bytes.Equal(got, content), "a-clean-read-yields-the-pushed-bytes")
	}
	verifCover("clean")
}

func init() {
	verifRegister("VerifC01_ClientVerifies", VerifC01_ClientVerifies)
	verifRegister("VerifC01_StackRange", VerifC01_StackRange)
	verifRegister("VerifC01_StackPushGet", VerifC01_StackPushGet)
}
