package ociserver

// C18: the HTTP client survives any server response. The real server over an in-memory
// registry produces a well-formed answer; one response of the exchange is then corrupted
// (status, any relevant header, body, content length) before the client sees it.

import (
	"bytes"
	"context"
	"io"
	"net/http"
	"strings"

	"cuelabs.dev/go/oci/ociregistry"
	"cuelabs.dev/go/oci/ociregistry/ociclient"
	"cuelabs.dev/go/oci/ociregistry/ocimem"
	"github.com/opencontainers/go-digest"
)

type c18transport struct {
	inner    *vsTransport
	mutateAt int
	n        int
	// noDigest emulates a registry that never sends Docker-Content-Digest (on top of the
	// single corrupted response)
	noDigest bool
}

func c18mutate(resp *http.Response) {
	set := func(k string, vals []string) {
		j := verifChoose("value", len(vals)+1)
		if j == len(vals) {
			resp.Header.Del(k)
		} else {
			resp.Header[k] = []string{vals[j]}
		}
	}
	body := func(s string) {
		resp.Body = io.NopCloser(bytes.NewReader([]byte(s)))
	}
	switch verifChoose("field", 11) {
	case 0:
		resp.StatusCode = []int{200, 201, 202, 204, 206, 301, 400, 401, 404, 416, 500, 100}[verifChoose("status", 12)]
	case 1:
		set("Location", []string{"", "/v2/a/b/blobs/uploads/eHl6", "://bad", "http://other.example/x?y", "%zz"})
	case 2:
		set("Range", []string{"", "0-0", "0-9", "garbage", "5-", "-"})
	case 3:
		set("Content-Range", []string{"", "bytes 0-1/3", "garbage", "bytes 0-1/x", "bytes 0-1/", "/"})
	case 4:
		resp.ContentLength = []int64{-1, 0, 1, 7, 131072, 131073, 1 << 62, -5}[verifChoose("contentLength", 8)]
	case 5:
		// (incl. well-formed digests of algorithms that are not linked in, and of another
		// available algorithm)
		set("Docker-Content-Digest", []string{"", "sha256:bad", "sha256:" + "0000000000000000000000000000000000000000000000000000000000000000",
			"sha1:" + "aaf4c61ddcc5e8a2dabede0f3b482cd9aea9434d", "md5:" + "5d41402abc4b2a76b9719d911017c592",
			"sha512:" + strings.Repeat("0", 128), "blake3:" + strings.Repeat("1", 64), "sha256+b64:" + strings.Repeat("a", 43)})
	case 6:
		set("Link", []string{"", `</v2/_catalog?n=1&last=a>;rel="next"`, "garbage", "<", "<x", `<%zz>`, `<>`})
	case 7:
		set("Content-Type", []string{"", "application/json", "text/plain", "garbage;;;", "application/x+json"})
	case 8:
		set("OCI-Chunk-Min-Length", []string{"", "5", "x", "-1", "99999999999999999999"})
	case 9:
		body([]string{"", "abc", "{", `{"repositories":null}`, `{"tags":["z"],"name":1}`, `{"errors":[]}`, `{"errors":[{"code":"DENIED","message":"m"}]}`, `[]`, `{"manifests":[{}]}`}[verifChoose("body", 9)])
	default:
		// truncated or over-long body relative to the declared length
		if verifBool("truncate") {
			body("")
		} else {
			body("0123456789abcdef")
		}
	}
}

func (t *c18transport) RoundTrip(req *http.Request) (*http.Response, error) {
	resp, err := t.inner.RoundTrip(req)
	if err == nil && t.noDigest {
		resp.Header.Del("Docker-Content-Digest")
	}
	if err == nil && t.n == t.mutateAt {
		c18mutate(resp)
	}
	t.n++
	verifAssert(t.n <= 12, "bounded-number-of-requests")
	return resp, err
}

func VerifC18_ClientFaults() {
	mem := ocimem.New()
	ctx := context.Background()
	blob := []byte("blob-content")
	bdig := digest.FromBytes(blob)
	_, err := mem.PushBlob(ctx, "a/b", ociregistry.Descriptor{MediaType: "application/octet-stream", Digest: bdig, Size: int64(len(blob))}, bytes.NewReader(blob))
	verifAssert(err == nil, "setup")
	man := []byte("manifest")
	mdesc, err := mem.PushManifest(ctx, "a/b", "t1", man, "application/x-opaque")
	verifAssert(err == nil, "setup")
	mem.PushManifest(ctx, "a/b", "t2", man, "application/x-opaque")
	mem.PushManifest(ctx, "a/b", "t3", man, "application/x-opaque")
	opts := &Options{OmitDigestFromTagGetResponse: verifBool("omitDigest"), OmitLinkHeaderFromResponses: verifBool("omitLink")}
	tr := &c18transport{inner: &vsTransport{h: New(mem, opts)}, mutateAt: verifChoose("mutateAt", 4), noDigest: verifBool("registryNeverSendsDigest")}
	pageSize := []int{1, 2, 0, -1, -5, 1000}[verifChoose("pageSize", 6)]
	c, err := ociclient.New("h.example", &ociclient.Options{Transport: tr, ListPageSize: pageSize})
	verifAssert(err == nil, "client")
	drain := func(r ociregistry.BlobReader, err error) {
		if err == nil {
			io.ReadAll(r)
			r.Close()
		}
	}
	switch verifChoose("op", 15) {
	case 0:
		drain(c.GetBlob(ctx, "a/b", bdig))
	case 1:
		drain(c.GetBlobRange(ctx, "a/b", bdig, 1, 3))
	case 2:
		drain(c.GetManifest(ctx, "a/b", mdesc.Digest))
	case 3:
		drain(c.GetTag(ctx, "a/b", "t1"))
	case 4:
		c.ResolveBlob(ctx, "a/b", bdig)
	case 5:
		c.ResolveTag(ctx, "a/b", "t1")
	case 6:
		nb := []byte("new")
		c.PushBlob(ctx, "a/b", ociregistry.Descriptor{MediaType: "application/octet-stream", Digest: digest.FromBytes(nb), Size: 3}, bytes.NewReader(nb))
	case 7:
		w, err := c.PushBlobChunked(ctx, "a/b", []int{-1, 0, 1, 2, 3, 100}[verifChoose("chunkSize", 6)])
		if err == nil {
			w.Write([]byte("ab"))
			w.Write([]byte("cd"))
			w.Size()
			w.ID()
			w.Commit(digest.FromBytes([]byte("abcd")))
			w.Close()
		}
	case 8:
		w, err := c.PushBlobChunked(ctx, "a/b", 1)
		if err == nil {
			w.Write([]byte("ab"))
			id := w.ID()
			w.Close()
			w2, err := c.PushBlobChunkedResume(ctx, "a/b", id, -1, 1)
			if err == nil {
				w2.Write([]byte("c"))
				w2.Commit(digest.FromBytes([]byte("abc")))
				w2.Close()
			}
		}
	case 9:
		c.MountBlob(ctx, "a/b", "c/d", bdig)
	case 10:
		c.PushManifest(ctx, "a/b", "t9", []byte("m2"), "application/x-opaque")
	case 11:
		c.DeleteTag(ctx, "a/b", "t1")
	case 12:
		ociregistry.All(c.Tags(ctx, "a/b", ""))
	case 13:
		ociregistry.All(c.Repositories(ctx, ""))
	default:
		ociregistry.All(c.Referrers(ctx, "a/b", bdig, ""))
	}
	verifCover("end")
}

func init() {
	verifRegister("VerifC18_ClientFaults", VerifC18_ClientFaults)
}
