package ociunify

// C16: concurrent unified reads are leak-free for every answer order and cancellation.

import (
	"context"
	"errors"
	"fmt"

	"cuelabs.dev/go/oci/ociregistry"
)

var errC16Close = errors.New("close failed")

func VerifC16_ConcurrentRead() {
	m0 := &c15member{id: 0, ok: verifBool("member0ok"), digest: "sha256:aaaa", waitCancel: verifBool("member0waitsForCancel")}
	m1 := &c15member{id: 1, ok: verifBool("member1ok"), digest: "sha256:aaaa", waitCancel: verifBool("member1waitsForCancel")}
	// a failing member may fail with an error of its own that wraps a context error (its
	// own timeout): that is a member failure, not a cancellation by the caller
	switch verifChoose("failKind", 3) {
	case 1:
		m0.failErr = fmt.Errorf("member request timed out: %w", context.DeadlineExceeded)
		m1.failErr = m0.failErr
	case 2:
		m0.failErr = fmt.Errorf("member gave up: %w", context.Canceled)
		m1.failErr = m0.failErr
	}
	u := New(m0.registry(), m1.registry(), &Options{ReadPolicy: ReadConcurrent})
	ctx, cancel := context.WithCancel(context.Background())
	defer cancel()
	callerCancels := verifBool("callerCancels")
	cancelled := false
	if callerCancels {
		// the caller's cancellation happens at an arbitrary scheduling point
		go func() {
			cancelled = true
			cancel()
		}()
	}
	// a member that only answers on cancellation, with nobody cancelling and the other
	// member failing or also waiting, would block the call forever: not a case the
	// property talks about (members "return slowly or only after their context is
	// cancelled" presuppose that it eventually is)
	// a call in which no member can ever answer and nobody cancels never returns: excluded
	verifAssume(callerCancels || !m0.waitCancel || !m1.waitCancel)
	verifAssume(callerCancels || !(m0.waitCancel && !m1.ok) && !(m1.waitCancel && !m0.ok))
	entry := verifChoose("entry", 5)
	var rd ociregistry.BlobReader
	var err error
	var desc ociregistry.Descriptor
	switch entry {
	case 0:
		rd, err = u.GetBlob(ctx, "repo", "sha256:d")
	case 1:
		rd, err = u.GetBlobRange(ctx, "repo", "sha256:d", 0, 1)
	case 2:
		rd, err = u.GetManifest(ctx, "repo", "sha256:d")
	case 3:
		desc, err = u.ResolveBlob(ctx, "repo", "sha256:d")
	default:
		desc, err = u.ResolveManifest(ctx, "repo", "sha256:d")
	}
	_ = desc
	if err != nil {
		bothFailed := !m0.ok && !m1.ok
		verifAssert(bothFailed || cancelled || ctx.Err() != nil, "error-only-if-both-fail-or-caller-cancelled")
		verifCover("error")
	} else {
		verifCover("success")
	}
	if rd != nil {
		// the chosen member's context is live until the reader is closed
		var chosen *c15reader
		for _, m := range []*c15member{m0, m1} {
			for _, r := range m.readers {
				if br, ok := rd.(blobReader); ok && br.BlobReader == ociregistry.BlobReader(r) {
					chosen = r
				}
			}
		}
		verifAssert(chosen != nil, "result-is-a-members-reader")
		if chosen != nil {
			if !cancelled {
				verifAssert(chosen.ctx.Err() == nil, "winners-context-live-until-close")
			}
			// the member's reader may fail to close cleanly: the context is released anyway
			if verifBool("memberCloseFails") {
				chosen.closeErr = errC16Close
			}
			cerr := rd.Close()
			verifAssert((cerr != nil) == (chosen.closeErr != nil), "close-error-is-the-members")
			verifAssert(chosen.closed == 1, "close-reaches-the-member-reader")
			verifAssert(chosen.ctx.Err() != nil, "winners-context-cancelled-after-close")
		}
	}
	left := verifQuiesce()
	if m0.returned == m0.entered && m1.returned == m1.entered {
		// once both members have returned nothing stays blocked and nothing stays open
		verifAssert(left == 0, "no-goroutine-remains-blocked")
		for _, m := range []*c15member{m0, m1} {
			for _, r := range m.readers {
				verifAssert(r.closed == 1, "every-opened-reader-closed-exactly-once")
			}
		}
		verifCover("both-returned")
	}
	verifCover("end")
}

func init() {
	verifRegister("VerifC16_ConcurrentRead", VerifC16_ConcurrentRead)
}
