package ociunify

// C15 / C16: the unified registry over two scripted members.

import (
	"bytes"
	"context"
	"errors"
	"io"

	"cuelabs.dev/go/oci/ociregistry"
	"cuelabs.dev/go/oci/ociregistry/ocimem"
	"github.com/opencontainers/go-digest"
)

var (
	c15errA = errors.New("member failure")
)

type c15reader struct {
	io.Reader
	desc   ociregistry.Descriptor
	closed int
	ctx    context.Context
	// the member's reader may report an error from Close (e.g. a truncated body)
	closeErr error
}

func (r *c15reader) Close() error                       { r.closed++; return r.closeErr }
func (r *c15reader) Descriptor() ociregistry.Descriptor { return r.desc }

type c15member struct {
	id      int
	ok      bool // whether reads/writes succeed on this member
	digest  ociregistry.Digest
	calls   []string
	readers []*c15reader
	ctxs    []context.Context
	// for C16: block until the context is cancelled before answering
	waitCancel bool
	args       []string
	entered    int
	returned   int
	// the error a failing member answers with (default: an opaque error)
	failErr error
}

func (m *c15member) failure() error {
	if m.failErr != nil {
		return m.failErr
	}
	return c15errA
}

func (m *c15member) err() error {
	if m.ok {
		return nil
	}
	return m.failure()
}

func (m *c15member) note(ctx context.Context, call string, args ...string) {
	m.calls = append(m.calls, call)
	m.ctxs = append(m.ctxs, ctx)
	m.args = append(m.args, args...)
	m.entered++
	if m.waitCancel {
		<-ctx.Done()
	}
	m.returned++
}

func (m *c15member) reader(ctx context.Context) (ociregistry.BlobReader, error) {
	if !m.ok {
		return nil, m.failure()
	}
	r := &c15reader{Reader: bytes.NewReader([]byte("data")), desc: ociregistry.Descriptor{MediaType: "m", Digest: m.digest, Size: 4}, ctx: ctx}
	m.readers = append(m.readers, r)
	return r, nil
}

func (m *c15member) registry() ociregistry.Interface {
	desc := func() (ociregistry.Descriptor, error) {
		if !m.ok {
			return ociregistry.Descriptor{}, m.failure()
		}
		return ociregistry.Descriptor{MediaType: "m", Digest: m.digest, Size: 4}, nil
	}
	return &ociregistry.Funcs{
		GetBlob_: func(ctx context.Context, repo string, d ociregistry.Digest) (ociregistry.BlobReader, error) {
			m.note(ctx, "GetBlob", repo, string(d))
			return m.reader(ctx)
		},
		GetBlobRange_: func(ctx context.Context, repo string, d ociregistry.Digest, o0, o1 int64) (ociregistry.BlobReader, error) {
			m.note(ctx, "GetBlobRange", repo, string(d))
			return m.reader(ctx)
		},
		GetManifest_: func(ctx context.Context, repo string, d ociregistry.Digest) (ociregistry.BlobReader, error) {
			m.note(ctx, "GetManifest", repo, string(d))
			return m.reader(ctx)
		},
		GetTag_: func(ctx context.Context, repo, tag string) (ociregistry.BlobReader, error) {
			m.note(ctx, "GetTag", repo, tag)
			return m.reader(ctx)
		},
		ResolveBlob_: func(ctx context.Context, repo string, d ociregistry.Digest) (ociregistry.Descriptor, error) {
			m.note(ctx, "ResolveBlob", repo, string(d))
			return desc()
		},
		ResolveManifest_: func(ctx context.Context, repo string, d ociregistry.Digest) (ociregistry.Descriptor, error) {
			m.note(ctx, "ResolveManifest", repo, string(d))
			return desc()
		},
		ResolveTag_: func(ctx context.Context, repo, tag string) (ociregistry.Descriptor, error) {
			m.note(ctx, "ResolveTag", repo, tag)
			return desc()
		},
		MountBlob_: func(ctx context.Context, from, to string, d ociregistry.Digest) (ociregistry.Descriptor, error) {
			m.note(ctx, "MountBlob", from, to, string(d))
			return desc()
		},
		PushManifest_: func(ctx context.Context, repo, tag string, data []byte, mt string) (ociregistry.Descriptor, error) {
			m.note(ctx, "PushManifest", repo, tag, string(data), mt)
			return desc()
		},
		DeleteBlob_: func(ctx context.Context, repo string, d ociregistry.Digest) error {
			m.note(ctx, "DeleteBlob", repo, string(d))
			return m.err()
		},
		DeleteManifest_: func(ctx context.Context, repo string, d ociregistry.Digest) error {
			m.note(ctx, "DeleteManifest", repo, string(d))
			return m.err()
		},
		DeleteTag_: func(ctx context.Context, repo, tag string) error {
			m.note(ctx, "DeleteTag", repo, tag)
			return m.err()
		},
	}
}

func c15members() (*c15member, *c15member) {
	m0 := &c15member{id: 0, ok: verifBool("member0ok"), digest: "sha256:aaaa"}
	m1 := &c15member{id: 1, ok: verifBool("member1ok"), digest: "sha256:aaaa"}
	if verifBool("digestsDiffer") {
		m1.digest = "sha256:bbbb"
	}
	return m0, m1
}

func c15sameArgs(a, b *c15member) bool {
	if len(a.args) != len(b.args) || len(a.calls) != len(b.calls) {
		return false
	}
	ok := true
	for i := range a.args {
		ok = ok && a.args[i] == b.args[i]
	}
	for i := range a.calls {
		ok = ok && a.calls[i] == b.calls[i]
	}
	return ok
}

// VerifC15_Writes: every write reaches both members with identical arguments and
// succeeds only if both succeed.
func VerifC15_Writes() {
	m0, m1 := c15members()
	policy := ReadPolicy(verifChoose("policy", 2))
	u := New(m0.registry(), m1.registry(), &Options{ReadPolicy: policy})
	ctx := context.Background()
	// string arguments are symbolic (0 or 1 arbitrary byte): they are passed through
	repo, repo2, tag, mt := verifString("repo", 1), verifString("repo2", 1), verifString("tag", 1), verifString("mediaType", 1)
	dig := ociregistry.Digest(verifString("digest", 1))
	var err error
	var want []string
	switch verifChoose("op", 5) {
	case 0:
		_, err = u.PushManifest(ctx, repo, tag, []byte("m"), mt)
		want = []string{repo, tag, "m", mt}
	case 1:
		_, err = u.MountBlob(ctx, repo, repo2, dig)
		want = []string{repo, repo2, string(dig)}
	case 2:
		err = u.DeleteBlob(ctx, repo, dig)
		want = []string{repo, string(dig)}
	case 3:
		err = u.DeleteManifest(ctx, repo, dig)
		want = []string{repo, string(dig)}
	default:
		err = u.DeleteTag(ctx, repo, tag)
		want = []string{repo, tag}
	}
	verifAssert(len(m0.calls) == 1 && len(m1.calls) == 1, "write-applied-to-both-members-once")
	verifAssert(c15sameArgs(m0, m1), "both-members-get-identical-arguments")
	sameAsCaller := len(m0.args) == len(want)
	if sameAsCaller {
		for i := range want {
			sameAsCaller = sameAsCaller && m0.args[i] == want[i]
		}
	}
	verifAssert(sameAsCaller, "members-get-the-callers-arguments")
	verifAssert((err == nil) == (m0.ok && m1.ok), "write-succeeds-only-if-both-succeed")
	verifAssert(verifQuiesce() == 0, "no-goroutine-left-behind")
	verifCover("end")
}

// VerifC15_Reads: digest-addressed content is readable exactly when either member has
// it; tags resolve when the members agree or only one has it, and fail on conflict.
func VerifC15_Reads() {
	m0, m1 := c15members()
	policy := ReadPolicy(verifChoose("policy", 2))
	u := New(m0.registry(), m1.registry(), &Options{ReadPolicy: policy})
	ctx := context.Background()
	var err error
	var rd ociregistry.BlobReader
	var desc ociregistry.Descriptor
	op := verifChoose("op", 7)
	switch op {
	case 0:
		rd, err = u.GetBlob(ctx, "repo", "sha256:d")
	case 1:
		rd, err = u.GetBlobRange(ctx, "repo", "sha256:d", 1, 2)
	case 2:
		rd, err = u.GetManifest(ctx, "repo", "sha256:d")
	case 3:
		desc, err = u.ResolveBlob(ctx, "repo", "sha256:d")
	case 4:
		desc, err = u.ResolveManifest(ctx, "repo", "sha256:d")
	case 5:
		rd, err = u.GetTag(ctx, "repo", "tag")
	default:
		desc, err = u.ResolveTag(ctx, "repo", "tag")
	}
	either := m0.ok || m1.ok
	if op <= 4 {
		verifAssert((err == nil) == either, "digest-content-readable-iff-either-member-has-it")
	} else {
		conflict := m0.ok && m1.ok && m0.digest != m1.digest
		verifAssert((err == nil) == (either && !conflict), "tag-resolves-iff-agree-or-only-one")
		if err == nil {
			var got ociregistry.Digest
			if rd != nil {
				got = rd.Descriptor().Digest
			} else {
				got = desc.Digest
			}
			want := m0.digest
			if !m0.ok {
				want = m1.digest
			}
			verifAssert(got == want, "tag-result-is-a-members-answer")
		}
	}
	if rd != nil {
		rd.Close()
	}
	verifAssert(verifQuiesce() == 0, "no-goroutine-left-behind")
	// every reader any member handed out has been closed by now (chosen one by us)
	for _, m := range []*c15member{m0, m1} {
		for _, r := range m.readers {
			verifAssert(r.closed >= 1, "every-opened-reader-is-closed")
		}
	}
	verifCover("end")
}

func init() {
	verifRegister("VerifC15_Writes", VerifC15_Writes)
	verifRegister("VerifC15_Reads", VerifC15_Reads)
}

// VerifC15_MembersStayEqual: two equal in-memory members, one operation through the
// unifier, post-states observably equal (and the union view reads what was written).
func VerifC15_MembersStayEqual() {
	a, b := ocimem.New(), ocimem.New()
	ctx := context.Background()
	blob := verifBytes("blob", 2)
	bdig := digest.FromBytes(blob)
	// equal pre-states
	for _, r := range []*ocimem.Registry{a, b} {
		_, err := r.PushBlob(ctx, "r1", ociregistry.Descriptor{MediaType: "application/octet-stream", Digest: bdig, Size: int64(len(blob))}, bytes.NewReader(blob))
		verifAssert(err == nil, "setup")
		_, err = r.PushManifest(ctx, "r1", "t1", []byte("man1"), "application/x-opaque")
		verifAssert(err == nil, "setup")
	}
	policy := ReadPolicy(verifChoose("policy", 2))
	u := New(a, b, &Options{ReadPolicy: policy})
	nb := verifBytes("newblob", 2)
	ndig := digest.FromBytes(nb)
	var err error
	switch verifChoose("op", 7) {
	case 0:
		desc := ociregistry.Descriptor{MediaType: "application/octet-stream", Digest: ndig, Size: int64(len(nb))}
		if verifBool("wrongSize") {
			desc.Size++
		}
		_, err = u.PushBlob(ctx, "r1", desc, bytes.NewReader(nb))
	case 1:
		_, err = u.PushManifest(ctx, "r1", []string{"", "t1", "t2"}[verifChoose("tag", 3)], []byte("man2"), "application/x-opaque")
	case 2:
		_, err = u.MountBlob(ctx, "r1", []string{"r2", "Bad!"}[verifChoose("to", 2)], bdig)
	case 3:
		err = u.DeleteBlob(ctx, "r1", []ociregistry.Digest{bdig, ndig}[verifChoose("which", 2)])
	case 4:
		err = u.DeleteTag(ctx, "r1", []string{"t1", "t9"}[verifChoose("tag", 2)])
	case 5:
		err = u.DeleteManifest(ctx, "r1", digest.FromBytes([]byte("man1")))
	default:
		var w ociregistry.BlobWriter
		w, err = u.PushBlobChunked(ctx, "r1", 0)
		if err == nil {
			_, err = w.Write(nb)
			if err == nil {
				verifAssert(w.Size() == int64(len(nb)), "unified-writer-size")
				cd := ndig
				if verifBool("wrongDigest") {
					cd = bdig
				}
				_, err = w.Commit(cd)
			}
		}
	}
	_ = err
	verifAssert(verifQuiesce() == 0, "no-goroutine-left-behind")
	// the members answer identically about everything in sight
	for _, repo := range []string{"r1", "r2"} {
		for _, d := range []ociregistry.Digest{bdig, ndig} {
			da, ea := a.ResolveBlob(ctx, repo, d)
			db, eb := b.ResolveBlob(ctx, repo, d)
			verifAssert((ea == nil) == (eb == nil) && da.Size == db.Size, "members-agree-on-blobs")
		}
		for _, t := range []string{"t1", "t2"} {
			da, ea := a.ResolveTag(ctx, repo, t)
			db, eb := b.ResolveTag(ctx, repo, t)
			verifAssert((ea == nil) == (eb == nil) && da.Digest == db.Digest, "members-agree-on-tags")
		}
		ta, _ := ociregistry.All(a.Tags(ctx, repo, ""))
		tb, _ := ociregistry.All(b.Tags(ctx, repo, ""))
		verifAssert(len(ta) == len(tb), "members-agree-on-tag-listing")
	}
	verifCover("end")
}

func init() {
	verifRegister("VerifC15_MembersStayEqual", VerifC15_MembersStayEqual)
}

// VerifC15_PushBlobScripted: PushBlob through the unifier over two scripted members
// that independently already hold the blob or not (what a read through either of them
// would see) and accept or refuse the push: the push is applied to both members, each
// receives the complete content, and success is reported only if both succeeded -
// whatever the members already hold (e.g. after an earlier push that failed on one side).
func VerifC15_PushBlobScripted() {
	content := []byte("blob")
	desc := ociregistry.Descriptor{MediaType: "application/octet-stream", Digest: "sha256:b10b", Size: int64(len(content))}
	type side struct {
		has, accepts bool
		pushes       int
		got          []byte
	}
	mk := func(s *side) ociregistry.Interface {
		resolve := func() (ociregistry.Descriptor, error) {
			if s.has {
				return desc, nil
			}
			return ociregistry.Descriptor{}, ociregistry.ErrBlobUnknown
		}
		return &ociregistry.Funcs{
			ResolveBlob_: func(ctx context.Context, repo string, d ociregistry.Digest) (ociregistry.Descriptor, error) {
				return resolve()
			},
			GetBlob_: func(ctx context.Context, repo string, d ociregistry.Digest) (ociregistry.BlobReader, error) {
				if _, err := resolve(); err != nil {
					return nil, err
				}
				return &c15reader{Reader: bytes.NewReader(content), desc: desc, ctx: ctx}, nil
			},
			PushBlob_: func(ctx context.Context, repo string, d ociregistry.Descriptor, r io.Reader) (ociregistry.Descriptor, error) {
				s.pushes++
				data, _ := io.ReadAll(r)
				s.got = data
				if !s.accepts {
					return ociregistry.Descriptor{}, c15errA
				}
				s.has = true
				return d, nil
			},
		}
	}
	s0 := &side{has: verifBool("member0has"), accepts: verifBool("member0accepts")}
	s1 := &side{has: verifBool("member1has"), accepts: verifBool("member1accepts")}
	u := New(mk(s0), mk(s1), &Options{ReadPolicy: ReadPolicy(verifChoose("policy", 2))})
	_, err := u.PushBlob(context.Background(), "repo", desc, bytes.NewReader(content))
	verifAssert(s0.pushes == 1 && s1.pushes == 1, "push-applied-to-both-members-once")
	verifAssert(bytes.Equal(s0.got, content) && bytes.Equal(s1.got, content), "both-members-receive-the-complete-content")
	verifAssert((err == nil) == (s0.accepts && s1.accepts), "write-succeeds-only-if-both-succeed")
	if err == nil {
		verifAssert(s0.has && s1.has, "after-a-successful-push-both-members-hold-the-blob")
	}
	verifAssert(verifQuiesce() == 0, "no-goroutine-left-behind")
	verifCover("end")
}

func init() {
	verifRegister("VerifC15_PushBlobScripted", VerifC15_PushBlobScripted)
}

// c15upload is a scripted member-side upload session.
type c15upload struct {
	id        string
	data      []byte
	committed bool
	closed    int
}

type c15writer struct {
	u *c15upload
}

func (w *c15writer) Write(p []byte) (int, error) { w.u.data = append(w.u.data, p...); return len(p), nil }
func (w *c15writer) Close() error                { w.u.closed++; return nil }
func (w *c15writer) Cancel() error               { return nil }
func (w *c15writer) Size() int64                 { return int64(len(w.u.data)) }
func (w *c15writer) ChunkSize() int              { return 1 }
func (w *c15writer) ID() string                  { return w.u.id }
func (w *c15writer) Commit(d ociregistry.Digest) (ociregistry.Descriptor, error) {
	w.u.committed = true
	return ociregistry.Descriptor{MediaType: "application/octet-stream", Digest: d, Size: int64(len(w.u.data))}, nil
}

// upload ids as registries hand them out: opaque tokens, paths, URLs with a query
// string, with punctuation at every alignment
var c15ids = []string{"0123abcd", "up-1", "/v2/r/blobs/uploads/1?_state=abc", "a?", "ab?", "abc?", "~x~", "é", "x y", `q"uote`, ""}

// VerifC15_ChunkedResume: a chunked upload through the unifier with a close-and-resume
// in the middle: the id the unified writer reports is accepted by the unifier's resume,
// each member is resumed with its own id and offset, both receive all the bytes and both
// commit - for member upload ids of every shape.
func VerifC15_ChunkedResume() {
	mk := func(id string) (*c15upload, ociregistry.Interface) {
		up := &c15upload{id: id}
		return up, &ociregistry.Funcs{
			PushBlobChunked_: func(ctx context.Context, repo string, chunkSize int) (ociregistry.BlobWriter, error) {
				return &c15writer{u: up}, nil
			},
			PushBlobChunkedResume_: func(ctx context.Context, repo, rid string, offset int64, chunkSize int) (ociregistry.BlobWriter, error) {
				verifAssert(rid == up.id, "member-resumed-with-its-own-upload-id")
				verifAssert(offset == -1 || offset == int64(len(up.data)), "member-resumed-at-its-own-offset")
				return &c15writer{u: up}, nil
			},
		}
	}
	// the subject is the upload-id codec, not the order in which the two members are
	// driven (explored by the other C15 harnesses): one schedule
	verifFixedSchedule(true)
	up0, m0 := mk(c15ids[verifChoose("id0", len(c15ids))])
	up1, m1 := mk(c15ids[verifChoose("id1", len(c15ids))])
	u := New(m0, m1, &Options{ReadPolicy: ReadPolicy(verifChoose("policy", 2))})
	ctx := context.Background()
	w, err := u.PushBlobChunked(ctx, "r", 0)
	verifAssert(err == nil, "upload-starts")
	n, err := w.Write([]byte("ab"))
	verifAssert(err == nil && n == 2, "first-write")
	id := w.ID()
	size := w.Size()
	verifAssert(w.Close() == nil, "close")
	off := size
	if verifBool("askForOffset") {
		off = -1
	}
	w2, err := u.PushBlobChunkedResume(ctx, "r", id, off, 0)
	verifAssert(err == nil, "the-unifiers-own-upload-id-resumes")
	if err != nil {
		return
	}
	verifAssert(w2.Size() == 2, "resumed-writer-reports-the-size")
	n, err = w2.Write([]byte("c"))
	verifAssert(err == nil && n == 1, "second-write")
	_, err = w2.Commit("sha256:abc")
	verifAssert(err == nil, "commit")
	verifAssert(string(up0.data) == "abc" && string(up1.data) == "abc", "both-members-receive-all-the-bytes")
	verifAssert(up0.committed && up1.committed, "both-members-commit")
	verifAssert(verifQuiesce() == 0, "no-goroutine-left-behind")
	verifCover("end")
}

func init() {
	verifRegister("VerifC15_ChunkedResume", VerifC15_ChunkedResume)
}
