package ociunify

// C05 (merge kernel): the union listing is sorted, duplicate-free and complete, or ends
// in an error; consumers that stop are not called again.

import (
	"errors"
	"strings"

	"cuelabs.dev/go/oci/ociregistry"
)

var c05otherErr = errors.New("backend failure")

type c05source struct {
	items []string
	err   error // delivered after the items (nil = none)
}

func c05makeSource(name string, max int) c05source {
	n := verifChoose(name+".n", max+1)
	var s c05source
	for i := 0; i < n; i++ {
		s.items = append(s.items, verifAtom(name))
	}
	// a well-behaved source is strictly ascending
	for i := 1; i < len(s.items); i++ {
		verifAssume(s.items[i-1] < s.items[i])
	}
	switch verifChoose(name+".err", 3) {
	case 1:
		s.err = ociregistry.ErrNameUnknown
	case 2:
		s.err = c05otherErr
	}
	return s
}

func (s c05source) seq() ociregistry.Seq[string] {
	return func(yield func(string, error) bool) {
		for _, x := range s.items {
			if !yield(x, nil) {
				return
			}
		}
		if s.err != nil {
			yield("", s.err)
		}
	}
}

func c05contains(l []string, x string) bool {
	found := false
	for _, y := range l {
		found = found || x == y
	}
	return found
}

func VerifC05_Merge() {
	max := verifParam("n", 2)
	a, b := c05makeSource("a", max), c05makeSource("b", max)
	stopAfter := verifChoose("stopAfter", 2*max+2) // 0 = never stops
	var got []string
	var gotErr error
	callsAfterEnd := 0
	ended := false
	mergeIter(a.seq(), b.seq(), strings.Compare)(func(x string, err error) bool {
		if ended {
			callsAfterEnd++
		}
		if err != nil {
			gotErr = err
			ended = true
			return true
		}
		got = append(got, x)
		if len(got) == stopAfter {
			ended = true
			return false
		}
		return true
	})
	verifAssert(callsAfterEnd == 0, "no-call-after-stop-or-error")
	asc := true
	for i := 1; i < len(got); i++ {
		asc = asc && got[i-1] < got[i]
	}
	verifAssert(asc, "strictly-ascending")
	for _, x := range got {
		verifAssert(c05contains(a.items, x) || c05contains(b.items, x), "only-source-items")
	}
	stopped := stopAfter != 0 && len(got) == stopAfter
	if !stopped {
		if gotErr == nil {
			// complete: every item of a source that did not fail is present
			for _, x := range a.items {
				verifAssert(c05contains(got, x), "complete")
			}
			for _, x := range b.items {
				verifAssert(c05contains(got, x), "complete")
			}
		}
		// error rules: name-unknown on one side only is not an error
		aFatal := a.err != nil && !errors.Is(a.err, ociregistry.ErrNameUnknown)
		bFatal := b.err != nil && !errors.Is(b.err, ociregistry.ErrNameUnknown)
		bothUnknown := errors.Is(a.err, ociregistry.ErrNameUnknown) && errors.Is(b.err, ociregistry.ErrNameUnknown)
		verifAssert((gotErr != nil) == (aFatal || bFatal || bothUnknown), "error-iff-a-source-failed")
		if bothUnknown {
			verifAssert(errors.Is(gotErr, ociregistry.ErrNameUnknown), "both-unknown-is-unknown")
		}
	}
	verifCover("end")
}

func init() {
	verifRegister("VerifC05_Merge", VerifC05_Merge)
}
