package ociref

// C17: reference parsing is total and an exact partition consistent with the validators.

import "strings"

func c17specTag(s string) bool {
	if len(s) == 0 || len(s) > 128 {
		return false
	}
	for i := 0; i < len(s); i++ {
		c := s[i]
		word := c == '_' || ('a' <= c && c <= 'z') || ('A' <= c && c <= 'Z') || ('0' <= c && c <= '9')
		if i == 0 && !word {
			return false
		}
		if !word && c != '.' && c != '-' {
			return false
		}
	}
	return true
}

// VerifC17_TagTotal: IsValidTag is defined on every string (including the empty one)
// and equals the specification's [A-Za-z0-9_][A-Za-z0-9_.-]{0,127}.
func VerifC17_TagTotal() {
	s := verifString("tag", verifParam("maxlen", 4))
	got := IsValidTag(s)
	verifObserve("valid", got)
	verifAssert(got == c17specTag(s), "tag-predicate-matches-spec")
	verifCover("end")
}

// VerifC17_TagLong: the length limit, around 128 bytes, with two symbolic bytes.
func VerifC17_TagLong() {
	n := 126 + verifChoose("len", 5) // 126..130
	pos := verifChoose("pos", 3)      // where the symbolic bytes sit: start, middle, end
	fill := strings.Repeat("a", n-2)
	sym := verifStringN("two", 2)
	var s string
	switch pos {
	case 0:
		s = sym + fill
	case 1:
		s = fill[:60] + sym + fill[60:]
	default:
		s = fill + sym
	}
	got := IsValidTag(s)
	verifAssert(got == c17specTag(s), "tag-predicate-matches-spec")
	verifCover("end")
}

// VerifC17_ValidatorsTotal: the other predicates never panic, on any string.
func VerifC17_ValidatorsTotal() {
	s := verifString("s", verifParam("maxlen", 4))
	h, r, d := IsValidHost(s), IsValidRepository(s), IsValidDigest(s)
	verifObserve("host", h)
	verifObserve("repo", r)
	verifObserve("digest", d)
	if s == "" {
		verifAssert(!h && !r && !d, "empty-string-is-invalid-everywhere")
	}
	// a valid repository never contains upper case, empty path elements or separators at the edges
	if r {
		verifAssert(!strings.Contains(s, "//") && !strings.HasPrefix(s, "/") && !strings.HasSuffix(s, "/"), "valid-repo-has-no-empty-elements")
		for i := 0; i < len(s); i++ {
			verifAssert(!('A' <= s[i] && s[i] <= 'Z'), "valid-repo-has-no-upper-case")
		}
		verifCover("valid-repo")
	}
	verifCover("end")
}

func c17partsValid(ref Reference) bool {
	if ref.Host != "" && !IsValidHost(ref.Host) {
		return false
	}
	if !IsValidRepository(ref.Repository) || len(ref.Repository) > 255 {
		return false
	}
	if ref.Tag != "" && !IsValidTag(ref.Tag) {
		return false
	}
	if ref.Digest != "" && !IsValidDigest(string(ref.Digest)) {
		return false
	}
	return true
}

// VerifC17_ParsePrint: parsing never panics; what parses prints back to the same
// string and every part satisfies its own predicate.
func VerifC17_ParsePrint() {
	s := verifString("ref", verifParam("maxlen", 3))
	ref, err := ParseRelative(s)
	verifObserve("ok", err == nil)
	verifObserve("host", ref.Host)
	verifObserve("repo", ref.Repository)
	verifObserve("tag", ref.Tag)
	verifObserve("digest", string(ref.Digest))
	if err == nil {
		verifAssert(ref.String() == s, "parse-then-print-is-identity")
		verifAssert(c17partsValid(ref), "parsed-parts-are-valid")
		verifCover("parsed")
	}
	ref2, err2 := Parse(s)
	if err2 == nil {
		verifAssert(err == nil && ref2 == ref && ref.Host != "", "Parse-agrees-with-ParseRelative-and-has-host")
	}
	verifCover("end")
}

// VerifC17_SkeletonParsePrint: structured references H/R:T@D with symbolic bytes in
// every part.
func VerifC17_SkeletonParsePrint() {
	hosts := []string{"", "h.io", "localhost:5000", "[::1]:80"}
	host := hosts[verifChoose("host", len(hosts))]
	k := verifParam("sym", 2)
	repo := "r" + verifString("repo", k)
	tag := ""
	if verifBool("hasTag") {
		tag = ":" + verifString("tag", k)
	}
	dig := ""
	if verifBool("hasDigest") {
		digs := []string{"@sha256:" + strings.Repeat("a", 64), "@sha256:" + strings.Repeat("a", 63), "@x", "@"}
		dig = digs[verifChoose("digest", len(digs))]
	}
	s := repo + tag + dig
	if host != "" {
		s = host + "/" + s
	}
	ref, err := ParseRelative(s)
	if err == nil {
		verifAssert(ref.String() == s, "parse-then-print-is-identity")
		verifAssert(c17partsValid(ref), "parsed-parts-are-valid")
		verifCover("parsed")
	}
	verifCover("end")
}

// VerifC17_PrintParse: valid parts with a non-empty host print to a string that
// parses back to the same parts.
func VerifC17_PrintParse() {
	hosts := []string{"h.io", "localhost:5000", "[::1]:80", "a.b.c"}
	k := verifParam("sym", 2)
	ref := Reference{
		Host:       hosts[verifChoose("host", len(hosts))],
		Repository: verifString("repo", k+1),
	}
	if verifBool("hasTag") {
		ref.Tag = verifString("tag", k)
	}
	if verifBool("hasDigest") {
		ref.Digest = Digest("sha256:" + strings.Repeat("b", 64))
	}
	verifAssume(c17partsValid(ref))
	got, err := Parse(ref.String())
	verifAssert(err == nil, "valid-parts-print-to-a-parsable-string")
	verifAssert(err != nil || got == ref, "print-then-parse-is-identity")
	verifCover("end")
}

// VerifC17_PrintParseLong: parts at their length limits: repositories of 245..256 bytes
// and tags of 127..129 bytes (mostly 'a', two symbolic bytes each) under every host of
// the menu. Valid parts (repository <= 255, tag <= 128) print to a string that parses
// back to the same parts; over-long parts are rejected by their own predicates / limit.
func VerifC17_PrintParseLong() {
	hosts := []string{"h.io", "localhost:5000", "[::1]:80", "example.com"}
	host := hosts[verifChoose("host", len(hosts))]
	rlen := []int{200, 245, 250, 254, 255, 256}[verifChoose("repoLen", 6)]
	repo := verifStringN("r0", 1) + strings.Repeat("a", rlen-2) + verifStringN("r1", 1)
	ref := Reference{Host: host, Repository: repo}
	if tl := []int{0, 1, 127, 128, 129}[verifChoose("tagLen", 5)]; tl == 1 {
		ref.Tag = verifStringN("t0", 1)
	} else if tl > 1 {
		ref.Tag = verifStringN("t0", 1) + strings.Repeat("b", tl-2) + verifStringN("t1", 1)
	}
	if verifBool("hasDigest") {
		ref.Digest = Digest("sha256:" + strings.Repeat("b", 64))
	}
	valid := c17partsValid(ref)
	got, err := Parse(ref.String())
	if valid {
		verifAssert(err == nil, "valid-parts-print-to-a-parsable-string")
		verifAssert(err != nil || got == ref, "print-then-parse-is-identity")
		verifCover("valid")
	} else if err == nil {
		// it parsed as something: then as different, individually valid parts
		verifAssert(got != ref && c17partsValid(got), "invalid-parts-never-parse-back-as-themselves")
	}
	verifCover("end")
}

func init() {
	verifRegister("VerifC17_PrintParseLong", VerifC17_PrintParseLong)
	verifRegister("VerifC17_TagTotal", VerifC17_TagTotal)
	verifRegister("VerifC17_TagLong", VerifC17_TagLong)
	verifRegister("VerifC17_ValidatorsTotal", VerifC17_ValidatorsTotal)
	verifRegister("VerifC17_ParsePrint", VerifC17_ParsePrint)
	verifRegister("VerifC17_SkeletonParsePrint", VerifC17_SkeletonParsePrint)
	verifRegister("VerifC17_PrintParse", VerifC17_PrintParse)
}
