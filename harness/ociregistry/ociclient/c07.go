package ociclient

// C07: errors keep their identity, status and message across server->client hops.

import (
	"bytes"
	"encoding/json"
	"errors"
	"fmt"
	"io"
	"net/http"

	"cuelabs.dev/go/oci/ociregistry"
)

var c07std = []ociregistry.Error{
	ociregistry.ErrBlobUnknown, ociregistry.ErrBlobUploadInvalid, ociregistry.ErrBlobUploadUnknown, ociregistry.ErrDigestInvalid,
	ociregistry.ErrManifestBlobUnknown, ociregistry.ErrManifestInvalid, ociregistry.ErrManifestUnknown, ociregistry.ErrNameInvalid,
	ociregistry.ErrNameUnknown, ociregistry.ErrSizeInvalid, ociregistry.ErrUnauthorized, ociregistry.ErrDenied,
	ociregistry.ErrUnsupported, ociregistry.ErrTooManyRequests, ociregistry.ErrRangeInvalid,
}

var c07statusOf = map[string]int{
	"BLOB_UNKNOWN": 404, "BLOB_UPLOAD_INVALID": 416, "BLOB_UPLOAD_UNKNOWN": 404, "DIGEST_INVALID": 400, "MANIFEST_BLOB_UNKNOWN": 404,
	"MANIFEST_INVALID": 400, "MANIFEST_UNKNOWN": 404, "NAME_INVALID": 400, "NAME_UNKNOWN": 404, "SIZE_INVALID": 400,
	"UNAUTHORIZED": 401, "DENIED": 403, "UNSUPPORTED": 400, "TOOMANYREQUESTS": 429, "RANGE_INVALID": 416,
}

// c07hop sends err through the server's error marshaller and the client's error parser.
func c07hop(err error, method string) (next error, status int) {
	data, status := ociregistry.MarshalError(err)
	resp := &http.Response{
		StatusCode: status,
		Status:     fmt.Sprintf("%d %s", status, http.StatusText(status)),
		Header:     http.Header{"Content-Type": {"application/json"}},
		Request:    &http.Request{Method: method},
	}
	if method == "HEAD" {
		resp.Body = io.NopCloser(bytes.NewReader(nil))
	} else {
		resp.Body = io.NopCloser(bytes.NewReader(data))
	}
	return makeError(resp), status
}

func c07isVector(err error) (v [15]bool) {
	for i, s := range c07std {
		v[i] = errors.Is(err, s)
	}
	return v
}

// c07original builds the registry-side error.
func c07original() (err error, code string, wantStatus int, detail json.RawMessage) {
	customCodes := []string{"CUSTOM_CODE", "X"}
	nstd := len(c07std)
	ci := verifChoose("code", nstd+len(customCodes))
	if ci < nstd {
		code = c07std[ci].Code()
	} else {
		code = customCodes[ci-nstd]
	}
	// message: optional leading prefixes followed by free bytes
	prefixes := []string{"", "name unknown: ", "404 Not Found: ", "custom code: ", "400 Bad Request: unsupported: "}
	msg := prefixes[verifChoose("msgPrefix", len(prefixes))] + verifString("msg", verifParam("msglen", 2))
	if verifBool("hasDetail") {
		detail = json.RawMessage(`{"why":"because"}`)
	}
	var base error = ociregistry.NewError(msg, code, detail)
	wantStatus = 500
	if s, ok := c07statusOf[code]; ok {
		wantStatus = s
	}
	switch w := verifChoose("wrapper", 4); w {
	case 0:
		err = base
	case 1:
		err = fmt.Errorf("some context: %w", base)
	default:
		statuses := []int{400, 404, 409, 416, 418, 429, 500, 503, 599, 401, 403, 405, 412, 499, 501} // (416 stays at index 3: the known-finding predicates name it)
		st := statuses[verifChoose("wrapStatus", len(statuses))]
		err = ociregistry.NewHTTPError(base, st, nil, nil)
		if w == 3 {
			// the status wrapper is itself wrapped (as ociserver and ociclient do with %w)
			err = fmt.Errorf("cannot copy blob data: %w", err)
		}
		if _, ok := c07statusOf[code]; !ok {
			wantStatus = st
		}
	}
	return err, code, wantStatus, detail
}

// VerifC07_Hops: identity, status, detail and message across 1..3 hops (GET-style carrier).
func VerifC07_Hops() {
	err0, code, wantStatus, detail := c07original()
	is0 := c07isVector(err0)
	hops := verifParam("hops", 3)
	var prevMsg string
	cur := err0
	for k := 1; k <= hops; k++ {
		next, status := c07hop(cur, "GET")
		verifAssert(status == wantStatus, "status-is-the-codes-status-or-the-wrappers")
		verifAssert(next != nil, "hop-yields-an-error")
		verifAssert(c07isVector(next) == is0, "errors.Is-answers-unchanged")
		var oe ociregistry.Error
		if errors.As(next, &oe) {
			verifAssert(oe.Code() == code, "code-preserved")
			verifAssert(string(oe.Detail()) == string(detail), "detail-preserved")
		} else {
			verifAssert(false, "hop-result-is-an-oci-error")
		}
		var he ociregistry.HTTPError
		verifAssert(errors.As(next, &he) && he.StatusCode() == wantStatus, "http-status-visible-on-client-error")
		msg := next.Error()
		if k >= 2 {
			verifAssert(msg == prevMsg, "message-is-a-fixed-point-after-the-first-hop")
		}
		prevMsg = msg
		cur = next
	}
	verifCover("end")
}

// VerifC07_Head: body-less carriers keep the HTTP status class.
func VerifC07_Head() {
	err0, _, wantStatus, _ := c07original()
	next, status := c07hop(err0, "HEAD")
	verifAssert(status == wantStatus, "status-is-the-codes-status-or-the-wrappers")
	var he ociregistry.HTTPError
	verifAssert(errors.As(next, &he) && he.StatusCode() == wantStatus, "http-status-visible-on-client-error")
	// the identity that survives is the one the status implies
	type pair struct {
		status int
		err    error
	}
	for _, p := range []pair{{404, ociregistry.ErrNameUnknown}, {401, ociregistry.ErrUnauthorized}, {403, ociregistry.ErrDenied}, {429, ociregistry.ErrTooManyRequests}, {400, ociregistry.ErrUnsupported}} {
		if wantStatus == p.status {
			verifAssert(errors.Is(next, p.err), "head-error-identity-follows-status")
		}
	}
	if wantStatus == 416 {
		verifAssert(errors.Is(next, ociregistry.ErrRangeInvalid), "416-is-range-invalid")
	}
	// a second (GET) hop of the HEAD-derived error keeps the status
	_, status2 := c07hop(next, "GET")
	verifAssert(status2 == wantStatus, "status-stable-on-next-hop")
	verifCover("end")
}

func init() {
	verifRegister("VerifC07_Hops", VerifC07_Hops)
	verifRegister("VerifC07_Head", VerifC07_Head)
}
