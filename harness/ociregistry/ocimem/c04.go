package ocimem

// C04 (in-memory registry part): chunked and resumable uploads.

import (
	"bytes"
	"errors"

	"cuelabs.dev/go/oci/ociregistry"
	"github.com/opencontainers/go-digest"
)

// VerifC04_ResumeOffset: a resumed write is accepted iff it starts where the registry's
// data ends (or asks with -1); a refused write is RANGE_INVALID and leaves the upload
// unchanged; the committed blob is exactly the accepted bytes.
func VerifC04_ResumeOffset() {
	k := verifParam("maxlen", 2)
	first := verifBytes("first", k)
	second := verifBytes("second", k)
	third := verifBytes("third", k)
	offset := verifInt64("offset")
	r := New()
	w, err := r.PushBlobChunked(vctx, "a/b", verifInt("chunkSize"))
	verifAssert(err == nil, "upload-starts")
	id := w.ID()
	if verifBool("uploadNeverStarted") {
		// the registry also accepts resuming an upload id it has no bytes for (never
		// started, or started in another repository): its size is 0
		id = "bmV2ZXItc3RhcnRlZA"
		first = nil
	}
	n, err := w.Write(first)
	verifAssert(err == nil && n == len(first), "first-write")
	w.Close()
	// resume at an arbitrary offset
	w2, err := r.PushBlobChunkedResume(vctx, "a/b", id, offset, 0)
	verifAssert(err == nil, "resume-opens")
	verifAssert(w2.ID() == id, "same-upload-id")
	have := append([]byte{}, first...)
	n2, err2 := w2.Write(second)
	okOffset := offset == -1 || offset == int64(len(first))
	verifAssert((err2 == nil) == okOffset, "write-accepted-iff-offset-is-current-size")
	if err2 != nil {
		verifAssert(errors.Is(err2, ociregistry.ErrRangeInvalid), "wrong-offset-is-RANGE_INVALID")
		verifAssert(n2 == 0 && w2.Size() == int64(len(first)), "refused-write-leaves-upload-unchanged")
		// the writer stays refused: more data sent on it is still data at a wrong offset
		n3, err3 := w2.Write(third)
		verifAssert(err3 != nil && errors.Is(err3, ociregistry.ErrRangeInvalid) && n3 == 0, "writer-resumed-at-a-wrong-offset-stays-refused")
		verifAssert(w2.Size() == int64(len(first)), "refused-write-leaves-upload-unchanged")
		verifCover("refused")
	} else {
		verifAssert(n2 == len(second) && w2.Size() == int64(len(first)+len(second)), "size-grows-by-write")
		have = append(have, second...)
		// later writes on the same writer are not offset-checked again
		n3, err3 := w2.Write(third)
		verifAssert(err3 == nil && n3 == len(third), "subsequent-write")
		have = append(have, third...)
		verifCover("accepted")
	}
	// resume with -1 and commit
	w3, err := r.PushBlobChunkedResume(vctx, "a/b", id, -1, 0)
	verifAssert(err == nil && w3.Size() == int64(len(have)), "resume-with-minus-one-reports-size")
	dig := digest.FromBytes(have)
	desc, err := w3.Commit(dig)
	verifAssert(err == nil && desc.Size == int64(len(have)) && desc.Digest == dig, "commit-ok")
	rd, err := r.GetBlob(vctx, "a/b", dig)
	verifAssert(err == nil, "committed-blob-found")
	if err == nil {
		verifAssert(bytes.Equal(vmReadAll(rd), have), "committed-bytes-are-exactly-the-accepted-writes")
	}
	verifCover("end")
}

// VerifC04_Partitions: any partition of a content into writes, with close-and-resume at
// any subset of the boundaries (resuming at the reported size or with -1), commits the
// concatenation.
func VerifC04_Partitions() {
	nw := verifParam("writes", 3)
	k := verifParam("maxlen", 1)
	r := New()
	w, err := r.PushBlobChunked(vctx, "a/b", 0)
	verifAssert(err == nil, "upload-starts")
	var all []byte
	for i := 0; i < nw; i++ {
		chunk := verifBytes("chunk", k)
		n, err := w.Write(chunk)
		verifAssert(err == nil && n == len(chunk), "write-ok")
		all = append(all, chunk...)
		verifAssert(w.Size() == int64(len(all)), "size-is-total-written")
		switch verifChoose("resume", 3) {
		case 1:
			id, size := w.ID(), w.Size()
			w.Close()
			w, err = r.PushBlobChunkedResume(vctx, "a/b", id, size, 0)
			verifAssert(err == nil, "resume-at-size")
		case 2:
			id := w.ID()
			w.Close()
			w, err = r.PushBlobChunkedResume(vctx, "a/b", id, -1, 0)
			verifAssert(err == nil, "resume-at-minus-one")
		}
	}
	dig := digest.FromBytes(all)
	desc, err := w.Commit(dig)
	verifAssert(err == nil && desc.Size == int64(len(all)), "commit-ok")
	rd, err := r.GetBlob(vctx, "a/b", dig)
	verifAssert(err == nil, "committed-blob-found")
	if err == nil {
		verifAssert(bytes.Equal(vmReadAll(rd), all), "committed-bytes-are-the-concatenation")
	}
	verifCover("end")
}

func init() {
	verifRegister("VerifC04_ResumeOffset", VerifC04_ResumeOffset)
	verifRegister("VerifC04_Partitions", VerifC04_Partitions)
}
