package ocimem

// C01 (in-memory registry part): bytes served for a digest are the bytes pushed.

import (
	"bytes"
	"context"
	"errors"
	"io"

	"cuelabs.dev/go/oci/ociregistry"
	"github.com/opencontainers/go-digest"
)

var vctx = context.Background()

func vmReadAll(r ociregistry.BlobReader) []byte {
	data, err := io.ReadAll(r)
	verifAssert(err == nil, "read-ok")
	r.Close()
	return data
}

// vmDeclaredDigest: what the pusher claims: the true digest, the digest of other
// content, a well-formed digest of nothing known, or a malformed one.
func vmDeclaredDigest(content, other []byte) (d ociregistry.Digest, truthful bool) {
	switch verifChoose("declared", 5) {
	case 0:
		return digest.FromBytes(content), true
	case 1:
		d := digest.FromBytes(other)
		return d, bytes.Equal(content, other)
	case 2:
		return "sha256:0000000000000000000000000000000000000000000000000000000000000000", false
	case 3:
		return "sha256:xyz", false
	default:
		return "", false
	}
}

// VerifC01_PushGet: a push is accepted iff digest and size describe the content; what is
// accepted is served back exactly; what is rejected leaves nothing retrievable.
func VerifC01_PushGet() {
	k := verifParam("maxlen", 2)
	content := verifBytes("content", k)
	other := verifBytes("other", k)
	dig, truthful := vmDeclaredDigest(content, other)
	size := verifInt64("size")
	mediaType := []string{"application/octet-stream", ""}[verifChoose("mediaType", 2)]
	repo := []string{"a/b", "Bad"}[verifChoose("repo", 2)]
	r := New()
	desc, err := r.PushBlob(vctx, repo, ociregistry.Descriptor{MediaType: mediaType, Digest: dig, Size: size}, bytes.NewReader(content))
	wantOK := truthful && size == int64(len(content)) && mediaType != "" && repo == "a/b"
	verifAssert((err == nil) == wantOK, "accepted-iff-descriptor-matches-content")
	if err != nil {
		// nothing retrievable under the declared digest, in that repository
		_, gerr := r.GetBlob(vctx, repo, dig)
		verifAssert(gerr != nil, "rejected-push-leaves-nothing")
		_, gerr = r.GetBlob(vctx, "a/b", dig)
		verifAssert(gerr != nil, "rejected-push-leaves-nothing")
		verifCover("rejected")
		return
	}
	verifAssert(desc.Digest == dig && desc.Size == size, "push-returns-descriptor")
	rd, err := r.GetBlob(vctx, repo, dig)
	verifAssert(err == nil, "pushed-blob-is-found")
	if err != nil {
		return
	}
	gd := rd.Descriptor()
	got := vmReadAll(rd)
	verifAssert(bytes.Equal(got, content), "served-bytes-are-pushed-bytes")
	verifAssert(gd.Size == int64(len(content)) && gd.Digest == dig, "descriptor-describes-content")
	verifAssert(digest.FromBytes(got) == dig, "hash-of-served-bytes-is-the-digest")
	rdesc, err := r.ResolveBlob(vctx, repo, dig)
	verifAssert(err == nil && rdesc.Digest == dig && rdesc.Size == gd.Size, "resolve-agrees")
	verifCover("accepted")
}

// VerifC01_Range: every (offset0, offset1) pair.
func VerifC01_Range() {
	content := verifBytes("content", verifParam("maxlen", 3))
	o0, o1 := verifInt64("o0"), verifInt64("o1")
	r := New()
	dig := digest.FromBytes(content)
	_, err := r.PushBlob(vctx, "a/b", ociregistry.Descriptor{MediaType: "application/octet-stream", Digest: dig, Size: int64(len(content))}, bytes.NewReader(content))
	verifAssert(err == nil, "push-ok")
	rd, err := r.GetBlobRange(vctx, "a/b", dig, o0, o1)
	n := int64(len(content))
	e := o1
	if o1 < 0 || o1 > n {
		e = n
	}
	wantOK := 0 <= o0 && o0 <= e
	verifAssert((err == nil) == wantOK, "range-accepted-iff-valid")
	if err != nil {
		return
	}
	gd := rd.Descriptor()
	got := vmReadAll(rd)
	verifAssert(bytes.Equal(got, content[o0:e]), "range-is-the-slice")
	verifAssert(gd.Size == n && gd.Digest == dig, "range-read-describes-whole-blob")
	verifCover("end")
}

// VerifC01_Manifest: a manifest pushed (by tag or by digest) is served back exactly, under
// its digest and under its tag.
func VerifC01_Manifest() {
	content := verifBytes("content", verifParam("maxlen", 2))
	tag := []string{"", "t1"}[verifChoose("tag", 2)]
	r := New()
	desc, err := r.PushManifest(vctx, "a/b", tag, content, "application/x-opaque")
	verifAssert(err == nil, "opaque-manifest-accepted")
	if err != nil {
		return
	}
	verifAssert(desc.Digest == digest.FromBytes(content) && desc.Size == int64(len(content)), "manifest-descriptor")
	rd, err := r.GetManifest(vctx, "a/b", desc.Digest)
	verifAssert(err == nil, "manifest-found-by-digest")
	if err == nil {
		verifAssert(bytes.Equal(vmReadAll(rd), content), "manifest-bytes-by-digest")
	}
	if tag != "" {
		rd, err := r.GetTag(vctx, "a/b", tag)
		verifAssert(err == nil, "manifest-found-by-tag")
		if err == nil {
			gd := rd.Descriptor()
			verifAssert(bytes.Equal(vmReadAll(rd), content) && gd.Digest == desc.Digest && gd.Size == desc.Size, "manifest-bytes-by-tag")
		}
	}
	// a blob is not a manifest
	_, err = r.GetBlob(vctx, "a/b", desc.Digest)
	verifAssert(errors.Is(err, ociregistry.ErrBlobUnknown), "manifest-not-served-as-blob")
	verifCover("end")
}

// VerifC01_CommitDigest: a chunked upload commits iff the digest matches the buffer; a
// failed commit stores nothing and is sticky.
func VerifC01_CommitDigest() {
	k := verifParam("maxlen", 2)
	c1, c2 := verifBytes("chunk1", k), verifBytes("chunk2", k)
	other := verifBytes("other", k)
	all := append(append([]byte{}, c1...), c2...)
	r := New()
	w, err := r.PushBlobChunked(vctx, "a/b", 0)
	verifAssert(err == nil, "upload-starts")
	n1, err1 := w.Write(c1)
	n2, err2 := w.Write(c2)
	verifAssert(err1 == nil && err2 == nil && n1 == len(c1) && n2 == len(c2) && w.Size() == int64(len(all)), "writes-accepted")
	dig, truthful := vmDeclaredDigest(all, other)
	desc, err := w.Commit(dig)
	verifAssert((err == nil) == truthful, "commit-iff-digest-matches")
	if err != nil {
		verifAssert(errors.Is(err, ociregistry.ErrDigestInvalid), "wrong-digest-is-DIGEST_INVALID")
		_, gerr := r.GetBlob(vctx, "a/b", dig)
		verifAssert(gerr != nil, "failed-commit-stores-nothing")
		_, err2 := w.Commit(digest.FromBytes(all))
		verifAssert(err2 != nil, "failed-commit-is-sticky")
		verifCover("rejected")
		return
	}
	verifAssert(desc.Digest == dig && desc.Size == int64(len(all)), "commit-descriptor")
	rd, err := r.GetBlob(vctx, "a/b", dig)
	verifAssert(err == nil, "committed-blob-found")
	if err == nil {
		verifAssert(bytes.Equal(vmReadAll(rd), all), "committed-bytes-are-the-concatenation")
	}
	verifCover("accepted")
}

func init() {
	verifRegister("VerifC01_PushGet", VerifC01_PushGet)
	verifRegister("VerifC01_Range", VerifC01_Range)
	verifRegister("VerifC01_Manifest", VerifC01_Manifest)
	verifRegister("VerifC01_CommitDigest", VerifC01_CommitDigest)
}
