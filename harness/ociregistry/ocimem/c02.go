package ocimem

// C02: the in-memory registry follows the reference registry semantics.
//
// A short reference model (per repository: blobs, manifests, tag bindings) is run side by
// side with the real Registry on the same symbolic operations; after every step all
// observable answers (resolves, reads, listings, referrers, error codes) are compared.

import (
	"bytes"
	"encoding/json"
	"errors"
	"slices"

	"cuelabs.dev/go/oci/ociregistry"
	"github.com/opencontainers/go-digest"
	ocispec "github.com/opencontainers/image-spec/specs-go/v1"
)

// ---- universe

type c02doc struct {
	mediaType  string
	data       []byte
	dig        ociregistry.Digest
	wellFormed bool
	blobs      []int // indices of universe blobs it references (config, layers)
	manifests  []int // indices of docs it references (index children)
	subject    int   // doc index or -1
	notJSON    bool  // the bytes are not valid JSON at all
}

type c02universe struct {
	blobs [2][]byte
	bdig  [2]ociregistry.Digest
	docs  []*c02doc
}

const c02opaque = "application/x-opaque"

func c02desc(mediaType string, data []byte) ociregistry.Descriptor {
	return ociregistry.Descriptor{MediaType: mediaType, Digest: digest.FromBytes(data), Size: int64(len(data))}
}

func c02marshal(v any) []byte {
	data, err := json.Marshal(v)
	if err != nil {
		panic(err)
	}
	return data
}

func newC02universe() *c02universe {
	u := &c02universe{}
	sym := verifParam("sym", 0) == 1
	for i := range u.blobs {
		if sym {
			u.blobs[i] = verifBytes("blob", 1)
		} else {
			u.blobs[i] = []byte{byte('a' + i)}
		}
		u.bdig[i] = digest.FromBytes(u.blobs[i])
	}
	bdesc := func(i int) ociregistry.Descriptor { return c02desc("application/octet-stream", u.blobs[i]) }
	add := func(d *c02doc) {
		d.dig = digest.FromBytes(d.data)
		u.docs = append(u.docs, d)
	}
	// D0: opaque manifest with one symbolic byte
	// (kept concrete also when sym=1: the document may be pushed under a JSON media type,
	// and decoding symbolic bytes as JSON is outside the json model)
	opaque := []byte("opaque")
	add(&c02doc{mediaType: c02opaque, data: opaque, wellFormed: true, subject: -1})
	// D1: image manifest config=blob0 layers=[blob1]
	add(&c02doc{mediaType: ocispec.MediaTypeImageManifest, wellFormed: true, blobs: []int{1, 0}, subject: -1,
		data: c02marshal(ocispec.Manifest{MediaType: ocispec.MediaTypeImageManifest, Config: bdesc(0), Layers: []ocispec.Descriptor{bdesc(1)}})})
	// D2: image manifest config=blob0, layer blob1, subject = D0 (may dangle)
	d0 := ociregistry.Descriptor{MediaType: c02opaque, Digest: u.docs[0].dig, Size: int64(len(u.docs[0].data))}
	add(&c02doc{mediaType: ocispec.MediaTypeImageManifest, wellFormed: true, blobs: []int{1, 0}, subject: 0,
		data: c02marshal(ocispec.Manifest{MediaType: ocispec.MediaTypeImageManifest, Config: bdesc(0), Layers: []ocispec.Descriptor{bdesc(1)}, Subject: &d0, Annotations: map[string]string{"k": "d2"}})})
	// D3: index with one child D1
	d1 := ociregistry.Descriptor{MediaType: ocispec.MediaTypeImageManifest, Digest: u.docs[1].dig, Size: int64(len(u.docs[1].data))}
	add(&c02doc{mediaType: ocispec.MediaTypeImageIndex, wellFormed: true, manifests: []int{1}, subject: -1,
		data: c02marshal(ocispec.Index{MediaType: ocispec.MediaTypeImageIndex, Manifests: []ocispec.Descriptor{d1}})})
	// D4: image media type, malformed JSON
	add(&c02doc{mediaType: ocispec.MediaTypeImageManifest, data: []byte("{"), wellFormed: false, subject: -1, notJSON: true})
	// D5: image manifest whose config descriptor is not sane (zero size, non-empty-content digest)
	bad := bdesc(0)
	bad.Size = 0
	bad.Digest = "sha256:1111111111111111111111111111111111111111111111111111111111111111"
	add(&c02doc{mediaType: ocispec.MediaTypeImageManifest, wellFormed: false, subject: -1,
		data: c02marshal(ocispec.Manifest{MediaType: ocispec.MediaTypeImageManifest, Config: bad})})
	return u
}

// ---- reference model

type c02man struct {
	doc       *c02doc
	mediaType string
	view      c02view
}

// c02view: how a document reads when interpreted under a given media type.
type c02view struct {
	wellFormed bool
	blobs      []int
	manifests  []int
	subject    int
}

func c02jsonType(mt string) bool {
	return mt == ocispec.MediaTypeImageManifest || mt == ocispec.MediaTypeImageIndex
}

func c02viewOf(d *c02doc, mt string) c02view {
	switch {
	case mt == d.mediaType:
		return c02view{d.wellFormed, d.blobs, d.manifests, d.subject}
	case !c02jsonType(mt):
		// not a type the registry parses: accepted as opaque bytes
		return c02view{wellFormed: true, subject: -1}
	case !c02jsonType(d.mediaType):
		// opaque bytes under a JSON manifest type: not JSON
		return c02view{wellFormed: false, subject: -1}
	}
	// an image manifest read as an index or vice versa: the other kind's reference
	// fields are absent; malformed JSON stays malformed; the subject field is common
	if d.notJSON {
		return c02view{wellFormed: false, subject: -1}
	}
	return c02view{wellFormed: true, subject: d.subject}
}

type c02repo struct {
	blobs     map[ociregistry.Digest][]byte
	manifests map[ociregistry.Digest]*c02man
	tags      map[string]ociregistry.Descriptor
}

func (r *c02repo) empty() bool {
	return r == nil || (len(r.blobs) == 0 && len(r.manifests) == 0 && len(r.tags) == 0)
}

type c02model struct {
	immutable bool
	repos     map[string]*c02repo
	u         *c02universe
}

// outcome classes
const (
	oOK = iota
	oNameInvalid
	oNameUnknown
	oBlobUnknown
	oManifestUnknown
	oDenied
	oOther // a failure without a documented code
)

func c02class(err error) int {
	switch {
	case err == nil:
		return oOK
	case errors.Is(err, ociregistry.ErrNameInvalid):
		return oNameInvalid
	case errors.Is(err, ociregistry.ErrNameUnknown):
		return oNameUnknown
	case errors.Is(err, ociregistry.ErrBlobUnknown):
		return oBlobUnknown
	case errors.Is(err, ociregistry.ErrManifestUnknown):
		return oManifestUnknown
	case errors.Is(err, ociregistry.ErrDenied):
		return oDenied
	}
	return oOther
}

func c02validRepo(name string) bool { return name == "r1" || name == "r2" }
func c02validTag(tag string) bool    { return tag == "t1" || tag == "t2" }

func (m *c02model) repo(name string, create bool) *c02repo {
	r := m.repos[name]
	if r == nil && create {
		r = &c02repo{blobs: map[ociregistry.Digest][]byte{}, manifests: map[ociregistry.Digest]*c02man{}, tags: map[string]ociregistry.Descriptor{}}
		m.repos[name] = r
	}
	return r
}

// reach: is dig referenced, directly or transitively, from a tag of the repository?
func (m *c02model) tagged(r *c02repo, dig ociregistry.Digest) bool {
	seen := map[ociregistry.Digest]bool{}
	var visit func(d ociregistry.Digest) bool
	visit = func(d ociregistry.Digest) bool {
		if d == dig {
			return true
		}
		if seen[d] {
			return false
		}
		seen[d] = true
		mm := r.manifests[d]
		if mm == nil {
			return false
		}
		for _, bi := range mm.view.blobs {
			if m.u.bdig[bi] == dig {
				return true
			}
		}
		for _, mi := range mm.view.manifests {
			if visit(m.u.docs[mi].dig) {
				return true
			}
		}
		if mm.view.subject >= 0 && visit(m.u.docs[mm.view.subject].dig) {
			return true
		}
		return false
	}
	for _, d := range r.tags {
		if visit(d.Digest) {
			return true
		}
	}
	return false
}

func (m *c02model) pushBlob(repo string, bi int, digOK, sizeOK, mtOK bool) int {
	if !digOK || !sizeOK || !mtOK {
		return oOther
	}
	if !c02validRepo(repo) {
		return oNameInvalid
	}
	m.repo(repo, true).blobs[m.u.bdig[bi]] = m.u.blobs[bi]
	return oOK
}

func (m *c02model) pushManifest(repo, tag string, d *c02doc, mediaType string) int {
	if !c02validRepo(repo) {
		return oNameInvalid
	}
	r := m.repo(repo, true) // an empty repository may come into existence (allowed either way)
	if tag != "" && !c02validTag(tag) {
		return oOther
	}
	if tag != "" && m.immutable {
		if cur, ok := r.tags[tag]; ok {
			if cur.Digest == d.dig && cur.MediaType == mediaType {
				return oOK
			}
			return oDenied
		}
	}
	if mediaType == "" {
		return oOther
	}
	view := c02viewOf(d, mediaType)
	if !view.wellFormed {
		return oOther
	}
	for _, bi := range view.blobs {
		if _, ok := r.blobs[m.u.bdig[bi]]; !ok {
			return oOther
		}
	}
	for _, mi := range view.manifests {
		if r.manifests[m.u.docs[mi].dig] == nil {
			return oOther
		}
	}
	r.manifests[d.dig] = &c02man{doc: d, mediaType: mediaType, view: view}
	if tag != "" {
		r.tags[tag] = ociregistry.Descriptor{MediaType: mediaType, Digest: d.dig, Size: int64(len(d.data))}
	}
	return oOK
}

func (m *c02model) mount(from, to string, bi int) int {
	if !c02validRepo(to) {
		return oNameInvalid
	}
	rto := m.repo(to, true)
	rf := m.repo(from, false)
	if rf == nil {
		return oNameUnknown
	}
	data, ok := rf.blobs[m.u.bdig[bi]]
	if !ok {
		return oBlobUnknown
	}
	rto.blobs[m.u.bdig[bi]] = data
	return oOK
}

func (m *c02model) deleteBlob(repo string, bi int) int {
	r := m.repo(repo, false)
	if r == nil {
		return oNameUnknown
	}
	dig := m.u.bdig[bi]
	if _, ok := r.blobs[dig]; !ok {
		return oBlobUnknown
	}
	if m.immutable && m.tagged(r, dig) {
		return oDenied
	}
	delete(r.blobs, dig)
	return oOK
}

func (m *c02model) deleteManifest(repo string, d *c02doc) int {
	r := m.repo(repo, false)
	if r == nil {
		return oNameUnknown
	}
	if r.manifests[d.dig] == nil {
		return oManifestUnknown
	}
	if m.immutable && m.tagged(r, d.dig) {
		return oDenied
	}
	delete(r.manifests, d.dig)
	return oOK
}

func (m *c02model) deleteTag(repo, tag string) int {
	r := m.repo(repo, false)
	if r == nil {
		return oNameUnknown
	}
	if _, ok := r.tags[tag]; !ok {
		return oManifestUnknown
	}
	if m.immutable {
		return oDenied
	}
	delete(r.tags, tag)
	return oOK
}

// ---- comparison of one answer modulo "an empty repository may be unknown or empty"

func c02sameOutcome(got, want int, repoEmpty bool) bool {
	if got == want {
		return true
	}
	if repoEmpty {
		unknownish := func(o int) bool { return o == oNameUnknown || o == oBlobUnknown || o == oManifestUnknown }
		return unknownish(got) && unknownish(want)
	}
	return false
}

func c02sortedTags(r *c02repo, after string) []string {
	var out []string
	if r != nil {
		for t := range r.tags {
			if t > after {
				out = append(out, t)
			}
		}
	}
	slices.Sort(out)
	return out
}

func c02eqStrings(a, b []string) bool {
	if len(a) != len(b) {
		return false
	}
	ok := true
	for i := range a {
		ok = ok && a[i] == b[i]
	}
	return ok
}

// observe compares every observable answer of the registry with the model.
func c02observe(reg *Registry, m *c02model) {
	u := m.u
	for _, rn := range []string{"r1", "r2"} {
		mr := m.repo(rn, false)
		empty := mr.empty()
		for bi := range u.blobs {
			desc, err := reg.ResolveBlob(vctx, rn, u.bdig[bi])
			want := oBlobUnknown
			if mr == nil {
				want = oNameUnknown
			} else if _, ok := mr.blobs[u.bdig[bi]]; ok {
				want = oOK
			}
			verifAssert(c02sameOutcome(c02class(err), want, empty), "blob-presence-as-model")
			if err == nil && want == oOK {
				verifAssert(desc.Size == int64(len(u.blobs[bi])) && desc.Digest == u.bdig[bi], "blob-descriptor-as-model")
				rd, err := reg.GetBlob(vctx, rn, u.bdig[bi])
				verifAssert(err == nil, "present-blob-readable")
				if err == nil {
					verifAssert(bytes.Equal(vmReadAll(rd), u.blobs[bi]), "blob-bytes-as-model")
				}
			}
		}
		for _, d := range u.docs {
			desc, err := reg.ResolveManifest(vctx, rn, d.dig)
			want := oManifestUnknown
			if mr == nil {
				want = oNameUnknown
			} else if mr.manifests[d.dig] != nil {
				want = oOK
			}
			verifAssert(c02sameOutcome(c02class(err), want, empty), "manifest-presence-as-model")
			if err == nil && want == oOK {
				verifAssert(desc.Digest == d.dig && desc.Size == int64(len(d.data)) && desc.MediaType == mr.manifests[d.dig].mediaType, "manifest-descriptor-as-model")
			}
		}
		for _, tag := range []string{"t1", "t2"} {
			desc, err := reg.ResolveTag(vctx, rn, tag)
			want := oManifestUnknown
			var wd ociregistry.Descriptor
			if mr == nil {
				want = oNameUnknown
			} else if d, ok := mr.tags[tag]; ok {
				want, wd = oOK, d
			}
			verifAssert(c02sameOutcome(c02class(err), want, empty), "tag-binding-as-model")
			if err == nil && want == oOK {
				verifAssert(desc.Digest == wd.Digest && desc.MediaType == wd.MediaType && desc.Size == wd.Size, "tag-resolves-to-last-pushed")
				rd, gerr := reg.GetTag(vctx, rn, tag)
				if mr.manifests[wd.Digest] != nil {
					verifAssert(gerr == nil, "tagged-manifest-readable")
					if gerr == nil {
						rd.Close()
					}
				} else {
					verifAssert(c02class(gerr) == oManifestUnknown, "dangling-tag-reads-manifest-unknown")
				}
			}
		}
		// tag listing, from the start and from a start point
		for _, after := range []string{"", "t1"} {
			got, err := ociregistry.All(reg.Tags(vctx, rn, after))
			if mr == nil {
				verifAssert(err != nil || len(got) == 0, "tags-of-unknown-repo")
			} else {
				if err != nil {
					verifAssert(empty && c02class(err) == oNameUnknown, "tags-error-only-for-empty-repo")
				} else {
					verifAssert(c02eqStrings(got, c02sortedTags(mr, after)), "tags-listing-as-model")
				}
			}
		}
		// referrers of D0
		subj := u.docs[0].dig
		got, err := ociregistry.All(reg.Referrers(vctx, rn, subj, ""))
		var want []ociregistry.Digest
		if mr != nil {
			for dg, mm := range mr.manifests {
				if mm.view.subject == 0 {
					want = append(want, dg)
				}
			}
		}
		slices.Sort(want)
		if err != nil {
			verifAssert(empty && c02class(err) == oNameUnknown, "referrers-error-only-for-empty-repo")
		} else {
			ok := len(got) == len(want)
			if ok {
				for i := range got {
					ok = ok && got[i].Digest == want[i]
				}
			}
			verifAssert(ok, "referrers-are-exactly-the-manifests-naming-the-subject")
		}
	}
	// repository listing: every repository with content is listed; anything else listed holds no content
	repos, err := ociregistry.All(reg.Repositories(vctx, ""))
	verifAssert(err == nil, "repositories-listing-ok")
	for i := 1; i < len(repos); i++ {
		verifAssert(repos[i-1] < repos[i], "repositories-ascending-unique")
	}
	for _, rn := range []string{"r1", "r2"} {
		listed := false
		for _, x := range repos {
			listed = listed || x == rn
		}
		if !m.repo(rn, false).empty() {
			verifAssert(listed, "repository-with-content-is-listed")
		}
	}
	for _, x := range repos {
		verifAssert(x == "r1" || x == "r2", "only-valid-repositories-listed")
	}
}

// ---- one symbolic operation, applied to both

func c02step(reg *Registry, m *c02model, name string) {
	c02stepRestricted(reg, m, name, []int{0, 1, 2, 3, 4, 5})
}

func c02stepRestricted(reg *Registry, m *c02model, name string, ops []int) {
	u := m.u
	repos := []string{"r1", "r2", "Bad!"}
	switch ops[verifChoose(name+".op", len(ops))] {
	case 0: // push blob
		rn := repos[verifChoose(name+".repo", 3)]
		bi := verifChoose(name+".blob", 2)
		variant := verifChoose(name+".variant", 5)
		desc := ociregistry.Descriptor{MediaType: "application/octet-stream", Digest: u.bdig[bi], Size: int64(len(u.blobs[bi]))}
		digOK, sizeOK, mtOK := true, true, true
		content := u.blobs[bi]
		switch variant {
		case 4:
			// the reader yields nothing although the descriptor describes the blob
			content = nil
			if len(u.blobs[bi]) > 0 { // (in sym mode the blob itself may be empty)
				digOK, sizeOK = false, false
			}
		case 1:
			desc.Digest = "sha256:2222222222222222222222222222222222222222222222222222222222222222"
			digOK = false
		case 2:
			desc.Size++
			sizeOK = false
		case 3:
			desc.MediaType = ""
			mtOK = false
		}
		_, err := reg.PushBlob(vctx, rn, desc, bytes.NewReader(content))
		want := m.pushBlob(rn, bi, digOK, sizeOK, mtOK)
		verifAssert(c02class(err) == want, "push-blob-outcome")
	case 1: // push manifest
		rn := repos[verifChoose(name+".repo", 3)]
		tag := []string{"", "t1", "t2", "!bad"}[verifChoose(name+".tag", 4)]
		d := u.docs[verifChoose(name+".doc", len(u.docs))]
		mediaType := d.mediaType
		switch verifChoose(name+".mt", 4) {
		case 1:
			mediaType = ""
		case 2:
			// the same bytes under another media type
			switch d.mediaType {
			case ocispec.MediaTypeImageManifest:
				mediaType = ocispec.MediaTypeImageIndex
			case ocispec.MediaTypeImageIndex:
				mediaType = c02opaque
			default:
				mediaType = ocispec.MediaTypeImageManifest
			}
		}
		desc, err := reg.PushManifest(vctx, rn, tag, d.data, mediaType)
		want := m.pushManifest(rn, tag, d, mediaType)
		verifAssert(c02class(err) == want, "push-manifest-outcome")
		if err == nil {
			verifAssert(desc.Digest == d.dig && desc.Size == int64(len(d.data)), "push-manifest-descriptor")
		}
	case 2: // mount
		from := repos[verifChoose(name+".from", 3)]
		to := repos[verifChoose(name+".to", 3)]
		bi := verifChoose(name+".blob", 2)
		_, err := reg.MountBlob(vctx, from, to, u.bdig[bi])
		want := m.mount(from, to, bi)
		verifAssert(c02sameOutcome(c02class(err), want, m.repo(from, false).empty()), "mount-outcome")
	case 3: // delete blob
		rn := repos[verifChoose(name+".repo", 2)]
		bi := verifChoose(name+".blob", 2)
		empty := m.repo(rn, false).empty()
		err := reg.DeleteBlob(vctx, rn, u.bdig[bi])
		verifAssert(c02sameOutcome(c02class(err), m.deleteBlob(rn, bi), empty), "delete-blob-outcome")
	case 4: // delete manifest
		rn := repos[verifChoose(name+".repo", 2)]
		d := u.docs[verifChoose(name+".doc", len(u.docs))]
		empty := m.repo(rn, false).empty()
		err := reg.DeleteManifest(vctx, rn, d.dig)
		verifAssert(c02sameOutcome(c02class(err), m.deleteManifest(rn, d), empty), "delete-manifest-outcome")
	default: // delete tag
		rn := repos[verifChoose(name+".repo", 2)]
		tag := []string{"t1", "t2"}[verifChoose(name+".tag", 2)]
		empty := m.repo(rn, false).empty()
		err := reg.DeleteTag(vctx, rn, tag)
		verifAssert(c02sameOutcome(c02class(err), m.deleteTag(rn, tag), empty), "delete-tag-outcome")
	}
}

// c02setup builds a pre-state from optional pushes (applied to both sides and compared).
func c02setup(reg *Registry, m *c02model) {
	u := m.u
	must := func(err error, want int) { verifAssert(c02class(err) == want, "setup-step-outcome") }
	for bi := range u.blobs {
		if verifBool("setup.blob") {
			_, err := reg.PushBlob(vctx, "r1", ociregistry.Descriptor{MediaType: "application/octet-stream", Digest: u.bdig[bi], Size: int64(len(u.blobs[bi]))}, bytes.NewReader(u.blobs[bi]))
			must(err, m.pushBlob("r1", bi, true, true, true))
		}
	}
	for di, tag := range []string{"t1", "", "t2", "t2"} { // D0..D3
		if verifBool("setup.doc") {
			d := u.docs[di]
			t := tag
			if t != "" && !verifBool("setup.tagged") {
				t = ""
			}
			_, err := reg.PushManifest(vctx, "r1", t, d.data, d.mediaType)
			must(err, m.pushManifest("r1", t, d, d.mediaType))
		}
	}
}

// VerifC02_Steps: pre-state from the optional setup, then `steps` arbitrary operations.
func VerifC02_Steps() {
	u := newC02universe()
	immutable := verifBool("immutableTags")
	reg := NewWithConfig(&Config{ImmutableTags: immutable})
	m := &c02model{immutable: immutable, repos: map[string]*c02repo{}, u: u}
	if verifParam("setup", 1) == 1 {
		c02setup(reg, m)
	}
	n := verifParam("steps", 1)
	for i := 0; i < n; i++ {
		c02step(reg, m, "s")
		c02observe(reg, m)
	}
	verifCover("end")
}

// VerifC02_DeleteThenPush: from the full pre-state (everything of the setup menu pushed
// and tagged), a delete followed by a push: re-pushing content whose references were
// deleted meanwhile, or the same bytes under another media type.
func VerifC02_DeleteThenPush() {
	u := newC02universe()
	immutable := verifBool("immutableTags")
	reg := NewWithConfig(&Config{ImmutableTags: immutable})
	m := &c02model{immutable: immutable, repos: map[string]*c02repo{}, u: u}
	must := func(err error, want int) { verifAssert(c02class(err) == want, "setup-step-outcome") }
	for bi := range u.blobs {
		_, err := reg.PushBlob(vctx, "r1", ociregistry.Descriptor{MediaType: "application/octet-stream", Digest: u.bdig[bi], Size: int64(len(u.blobs[bi]))}, bytes.NewReader(u.blobs[bi]))
		must(err, m.pushBlob("r1", bi, true, true, true))
	}
	for di, tag := range []string{"", "", "t2", ""} {
		if tag != "" && !verifBool("setup.tagged") {
			tag = ""
		}
		d := u.docs[di]
		_, err := reg.PushManifest(vctx, "r1", tag, d.data, d.mediaType)
		must(err, m.pushManifest("r1", tag, d, d.mediaType))
	}
	// first a delete ...
	c02stepRestricted(reg, m, "del", []int{3, 4, 5})
	c02observe(reg, m)
	// ... then a push
	c02stepRestricted(reg, m, "push", []int{0, 1})
	c02observe(reg, m)
	verifCover("end")
}

func init() {
	verifRegister("VerifC02_DeleteThenPush", VerifC02_DeleteThenPush)
	verifRegister("VerifC02_Steps", VerifC02_Steps)
}
