package ocimem

// C08: the in-memory registry is race-free and linearizable under concurrent use.
//
// Two goroutines share one registry: A performs one operation, B performs two in
// sequence. The engine's scheduler pre-empts at every lock/unlock, so every interleaving
// of the critical sections is explored; a vector-clock detector reports data races; the
// concurrent outcome (results + final state) must equal one of the sequential orders.

import (
	"bytes"
	"fmt"
	"io"
	"sync"

	"cuelabs.dev/go/oci/ociregistry"
	"github.com/opencontainers/go-digest"
)

type c08world struct {
	blob, blob2 []byte
	man1, man2  []byte
	uploadID    string
}

func c08prepare() (*Registry, *c08world) {
	w := &c08world{blob: []byte("b1"), blob2: []byte("b2"), man1: []byte("manifest-1"), man2: []byte("manifest-2")}
	r := New()
	r.PushBlob(vctx, "r", ociregistry.Descriptor{MediaType: "application/octet-stream", Digest: digest.FromBytes(w.blob), Size: 2}, bytes.NewReader(w.blob))
	r.PushManifest(vctx, "r", "t", w.man1, "application/x-opaque")
	up, _ := r.PushBlobChunked(vctx, "r", 0)
	up.Write([]byte("x"))
	w.uploadID = up.ID()
	return r, w
}

const c08nops = 14

// c08op performs operation k and returns an outcome string.
func c08op(r *Registry, w *c08world, k int) string {
	code := func(err error) string { return fmt.Sprint(c02class(err)) }
	switch k {
	case 0:
		rd, err := r.GetTag(vctx, "r", "t")
		if err != nil {
			return "GetTag:" + code(err)
		}
		data, _ := io.ReadAll(rd)
		return "GetTag:ok:" + string(data)
	case 1:
		d, err := r.ResolveTag(vctx, "r", "t")
		return "ResolveTag:" + code(err) + ":" + string(d.Digest)
	case 2:
		_, err := r.PushManifest(vctx, "r", "t", w.man2, "application/x-opaque")
		return "Retag:" + code(err)
	case 3:
		return "DeleteManifest1:" + code(r.DeleteManifest(vctx, "r", digest.FromBytes(w.man1)))
	case 4:
		return "DeleteTag:" + code(r.DeleteTag(vctx, "r", "t"))
	case 5:
		_, err := r.PushBlob(vctx, "r", ociregistry.Descriptor{MediaType: "application/octet-stream", Digest: digest.FromBytes(w.blob2), Size: 2}, bytes.NewReader(w.blob2))
		return "PushBlob2:" + code(err)
	case 6:
		rd, err := r.GetBlob(vctx, "r", digest.FromBytes(w.blob))
		if err != nil {
			return "GetBlob:" + code(err)
		}
		data, _ := io.ReadAll(rd)
		return "GetBlob:ok:" + string(data)
	case 7:
		return "DeleteBlob:" + code(r.DeleteBlob(vctx, "r", digest.FromBytes(w.blob)))
	case 8:
		_, err := r.MountBlob(vctx, "r", "r2", digest.FromBytes(w.blob))
		return "Mount:" + code(err)
	case 9:
		tags, err := ociregistry.All(r.Tags(vctx, "r", ""))
		return fmt.Sprint("Tags:", code(err), ":", len(tags))
	case 10:
		// resume the shared upload at its current size and append one byte
		wr, err := r.PushBlobChunkedResume(vctx, "r", w.uploadID, -1, 0)
		if err != nil {
			return "Append:" + code(err)
		}
		_, err = wr.Write([]byte("y"))
		return "Append:" + code(err)
	case 11:
		wr, err := r.PushBlobChunkedResume(vctx, "r", w.uploadID, -1, 0)
		if err != nil {
			return "UploadSize:" + code(err)
		}
		return fmt.Sprint("UploadSize:", wr.Size())
	case 13:
		// resume an upload id the registry has not seen before (it creates the session on
		// demand) and append one byte: concurrent users of that id share one session
		wr, err := r.PushBlobChunkedResume(vctx, "r", "bmV3LXVwbG9hZA", -1, 0)
		if err != nil {
			return "AppendNew:" + code(err)
		}
		_, err = wr.Write([]byte("n"))
		return "AppendNew:" + code(err)
	default:
		// commit the shared upload as "x" (its content in the pre-state): succeeds unless an
		// append got in first
		wr, err := r.PushBlobChunkedResume(vctx, "r", w.uploadID, -1, 0)
		if err != nil {
			return "Commit:" + code(err)
		}
		desc, err := wr.Commit(digest.FromBytes([]byte("x")))
		if err != nil {
			return "Commit:err"
		}
		// real-time order: once Commit has returned successfully the blob is there (no
		// operation of the menu deletes it)
		_, rerr := r.ResolveBlob(vctx, "r", desc.Digest)
		verifAssert(rerr == nil, "committed-blob-is-retrievable-once-commit-has-returned")
		return "Commit:ok"
	}
}

// c08state summarises the observable final state.
func c08state(r *Registry, w *c08world) string {
	s := ""
	d, err := r.ResolveTag(vctx, "r", "t")
	s += fmt.Sprint("tag:", c02class(err), ":", d.Digest, ";")
	for _, m := range [][]byte{w.man1, w.man2} {
		_, err := r.ResolveManifest(vctx, "r", digest.FromBytes(m))
		s += fmt.Sprint("man:", c02class(err), ";")
	}
	for _, b := range [][]byte{w.blob, w.blob2, []byte("x"), []byte("xy"), []byte("xyy")} {
		for _, repo := range []string{"r", "r2"} {
			_, err := r.ResolveBlob(vctx, repo, digest.FromBytes(b))
			s += fmt.Sprint(c02class(err))
		}
	}
	// a committed blob's stored content always matches its digest
	if rd, err := r.GetBlob(vctx, "r", digest.FromBytes([]byte("x"))); err == nil {
		data, _ := io.ReadAll(rd)
		if digest.FromBytes(data) != digest.FromBytes([]byte("x")) {
			s += ";committed-content-mismatch"
		}
	}
	if wr, err := r.PushBlobChunkedResume(vctx, "r", "bmV3LXVwbG9hZA", -1, 0); err == nil {
		s += fmt.Sprint(";newupload:", wr.Size())
	}
	if wr, err := r.PushBlobChunkedResume(vctx, "r", w.uploadID, -1, 0); err == nil {
		s += fmt.Sprint(";upload:", wr.Size())
	}
	return s
}

func VerifC08_Linearizable() {
	a := verifChoose("opA", c08nops)
	b1 := verifChoose("opB1", c08nops)
	b2 := verifChoose("opB2", c08nops+1) // the last value: B performs a single operation
	// sequential reference executions: A before, between, after B's operations
	type outcome struct{ ra, rb1, rb2, state string }
	var refs []string
	for pos := 0; pos < 3; pos++ {
		if b2 == c08nops && pos == 2 {
			break
		}
		// (memoised: the reference runs are concrete, deterministic and private)
		enc := verifMemo(fmt.Sprint("ref/", a, "/", b1, "/", b2, "/", pos), func() string {
			r, w := c08prepare()
			var o outcome
			if pos == 0 {
				o.ra = c08op(r, w, a)
			}
			o.rb1 = c08op(r, w, b1)
			if pos == 1 {
				o.ra = c08op(r, w, a)
			}
			if b2 < c08nops {
				o.rb2 = c08op(r, w, b2)
			}
			if pos == 2 {
				o.ra = c08op(r, w, a)
			}
			o.state = c08state(r, w)
			return o.ra + "|" + o.rb1 + "|" + o.rb2 + "|" + o.state
		})
		refs = append(refs, enc)
	}
	// the concurrent execution
	verifRaceDetect()
	verifPreemptive(true)
	r, w := c08prepare()
	verifGoID(0)
	var got outcome
	var wg sync.WaitGroup
	wg.Add(2)
	go func() {
		defer wg.Done()
		verifGoID(1)
		got.ra = c08op(r, w, a)
	}()
	go func() {
		defer wg.Done()
		verifGoID(2)
		got.rb1 = c08op(r, w, b1)
		if b2 < c08nops {
			got.rb2 = c08op(r, w, b2)
		}
	}()
	wg.Wait()
	verifPreemptive(false)
	verifAssertNoRaces("no-data-race")
	got.state = c08state(r, w)
	ok := false
	gotEnc := got.ra + "|" + got.rb1 + "|" + got.rb2 + "|" + got.state
	for _, o := range refs {
		if o == gotEnc {
			ok = true
		}
	}
	if !ok {
		verifDebug("got", gotEnc)
		for _, o := range refs {
			verifDebug("ref", o)
		}
	}
	verifAssert(ok, "concurrent-outcome-equals-some-sequential-order")
	verifCover("end")
}

func init() {
	verifRegister("VerifC08_Linearizable", VerifC08_Linearizable)
}
