package ocimem

// C14 (immutable-tags mode of the in-memory registry): once a tag resolves to a digest
// it resolves to that digest and the same bytes forever, and everything a tagged
// manifest transitively references stays retrievable.

import (
	"bytes"

	"cuelabs.dev/go/oci/ociregistry"
	ocispec "github.com/opencontainers/image-spec/specs-go/v1"
)

type c14snapshot struct {
	tagDesc  map[string]ociregistry.Descriptor
	tagBytes map[string][]byte
	closure  []ociregistry.Digest // blobs and manifests reachable from tags (per the universe's reference structure)
	isBlob   []bool
}

// c14closure computes, from the universe's known reference structure, what is
// reachable from the registry's current tags in repository rn, restricted to items
// that are actually retrievable now.
func c14take(reg *Registry, u *c02universe, rn string) c14snapshot {
	s := c14snapshot{tagDesc: map[string]ociregistry.Descriptor{}, tagBytes: map[string][]byte{}}
	seen := map[ociregistry.Digest]bool{}
	var visit func(di int)
	visit = func(di int) {
		d := u.docs[di]
		if seen[d.dig] {
			return
		}
		seen[d.dig] = true
		if _, err := reg.ResolveManifest(vctx, rn, d.dig); err != nil {
			return // not present: nothing to preserve below it
		}
		s.closure = append(s.closure, d.dig)
		s.isBlob = append(s.isBlob, false)
		for _, bi := range d.blobs {
			if !seen[u.bdig[bi]] {
				seen[u.bdig[bi]] = true
				if _, err := reg.ResolveBlob(vctx, rn, u.bdig[bi]); err == nil {
					s.closure = append(s.closure, u.bdig[bi])
					s.isBlob = append(s.isBlob, true)
				}
			}
		}
		for _, mi := range d.manifests {
			visit(mi)
		}
		if d.subject >= 0 {
			visit(d.subject)
		}
	}
	for _, tag := range []string{"t1", "t2"} {
		desc, err := reg.ResolveTag(vctx, rn, tag)
		if err != nil {
			continue
		}
		s.tagDesc[tag] = desc
		if rd, err := reg.GetTag(vctx, rn, tag); err == nil {
			s.tagBytes[tag] = vmReadAll(rd)
		}
		for di, d := range u.docs {
			if d.dig == desc.Digest {
				visit(di)
			}
		}
	}
	return s
}

func VerifC14_ImmutableTags() {
	u := newC02universe()
	reg := NewWithConfig(&Config{ImmutableTags: true})
	m := &c02model{immutable: true, repos: map[string]*c02repo{}, u: u}
	c02setup(reg, m)
	before := c14take(reg, u, "r1")
	n := verifParam("steps", 1)
	for i := 0; i < n; i++ {
		c02step(reg, m, "s")
		for tag, d := range before.tagDesc {
			got, err := reg.ResolveTag(vctx, "r1", tag)
			verifAssert(err == nil && got.Digest == d.Digest && got.MediaType == d.MediaType && got.Size == d.Size, "tag-binding-kept-forever")
			if want, ok := before.tagBytes[tag]; ok {
				rd, err := reg.GetTag(vctx, "r1", tag)
				verifAssert(err == nil, "tagged-manifest-stays-readable")
				if err == nil {
					verifAssert(bytes.Equal(vmReadAll(rd), want), "tag-serves-the-same-bytes-forever")
				}
			}
		}
		for i, dg := range before.closure {
			var err error
			if before.isBlob[i] {
				_, err = reg.ResolveBlob(vctx, "r1", dg)
			} else {
				_, err = reg.ResolveManifest(vctx, "r1", dg)
			}
			verifAssert(err == nil, "everything-referenced-from-a-tag-stays-retrievable")
		}
	}
	if len(before.tagDesc) > 0 {
		verifCover("had-tags")
	}
	verifCover("end")
}

func init() {
	verifRegister("VerifC14_ImmutableTags", VerifC14_ImmutableTags)
}

// VerifC14_NestedReferences: a tagged index (t1 -> IDX -> D1 -> {config a, layer b}) in
// immutable-tags mode, where the index's child descriptor states D1's media type
// honestly or not, optionally followed by a re-push of D1's bytes under another media
// type, then any delete: everything reachable from the tag stays retrievable.
func VerifC14_NestedReferences() {
	u := newC02universe()
	reg := NewWithConfig(&Config{ImmutableTags: true})
	for bi := range u.blobs {
		_, err := reg.PushBlob(vctx, "r1", ociregistry.Descriptor{MediaType: "application/octet-stream", Digest: u.bdig[bi], Size: int64(len(u.blobs[bi]))}, bytes.NewReader(u.blobs[bi]))
		verifAssert(err == nil, "setup")
	}
	d1 := u.docs[1]
	_, err := reg.PushManifest(vctx, "r1", "", d1.data, d1.mediaType)
	verifAssert(err == nil, "setup")
	types := []string{ocispec.MediaTypeImageManifest, ocispec.MediaTypeImageIndex, c02opaque}
	childType := verifChoose("childType", 3) // 0 = the type D1 is stored under
	child := ociregistry.Descriptor{MediaType: types[childType], Digest: d1.dig, Size: int64(len(d1.data))}
	idx := c02marshal(ocispec.Index{MediaType: ocispec.MediaTypeImageIndex, Manifests: []ocispec.Descriptor{child}})
	idesc, err := reg.PushManifest(vctx, "r1", "t1", idx, ocispec.MediaTypeImageIndex)
	verifAssert(err == nil, "setup-index")
	// optional re-push of D1's bytes under another media type (untagged)
	if rp := verifChoose("repushAs", 4); rp > 0 {
		reg.PushManifest(vctx, "r1", "", d1.data, types[rp-1])
	}
	switch verifChoose("delete", 4) {
	case 0:
		reg.DeleteBlob(vctx, "r1", u.bdig[0])
	case 1:
		reg.DeleteBlob(vctx, "r1", u.bdig[1])
	case 2:
		reg.DeleteManifest(vctx, "r1", d1.dig)
	default:
		reg.DeleteManifest(vctx, "r1", idesc.Digest)
	}
	got, err := reg.ResolveTag(vctx, "r1", "t1")
	verifAssert(err == nil && got.Digest == idesc.Digest, "tag-binding-kept-forever")
	_, e0 := reg.ResolveManifest(vctx, "r1", idesc.Digest)
	_, e1 := reg.ResolveManifest(vctx, "r1", d1.dig)
	verifAssert(e0 == nil && e1 == nil, "manifests-referenced-from-a-tag-stay-retrievable")
	_, e2 := reg.ResolveBlob(vctx, "r1", u.bdig[0])
	_, e3 := reg.ResolveBlob(vctx, "r1", u.bdig[1])
	verifAssert(e2 == nil && e3 == nil, "blobs-referenced-through-a-tagged-index-stay-retrievable")
	verifCover("end")
}

func init() {
	verifRegister("VerifC14_NestedReferences", VerifC14_NestedReferences)
}

// c14tagsIntact: the invariant form of "everything a tagged manifest transitively
// references remains retrievable": in the current state, for every tag, the manifest it
// names and all blobs and child manifests it references (per the universe's known
// reference structure; subjects may dangle by specification) are retrievable.
func c14tagsIntact(reg *Registry, u *c02universe, rn string, maxDepth int) bool {
	ok := true
	// references are read under the media type the referring descriptor states (the tag's
	// descriptor at the top, the honest child descriptors of the universe below)
	var visit func(di int, mt string, depth int)
	visit = func(di int, mt string, depth int) {
		d := u.docs[di]
		if _, err := reg.ResolveManifest(vctx, rn, d.dig); err != nil {
			ok = false
			return
		}
		view := c02viewOf(d, mt)
		for _, bi := range view.blobs {
			if _, err := reg.ResolveBlob(vctx, rn, u.bdig[bi]); err != nil {
				ok = false
			}
		}
		for _, mi := range view.manifests {
			if depth < maxDepth {
				visit(mi, u.docs[mi].mediaType, depth+1)
			} else if _, err := reg.ResolveManifest(vctx, rn, u.docs[mi].dig); err != nil {
				ok = false
			}
		}
	}
	for _, tag := range []string{"t1", "t2"} {
		desc, err := reg.ResolveTag(vctx, rn, tag)
		if err != nil {
			continue
		}
		for di, d := range u.docs {
			if d.dig == desc.Digest {
				visit(di, desc.MediaType, 0)
			}
		}
	}
	return ok
}

// VerifC14_DeleteThenPush: immutable-tags mode, everything pushed (D2 optionally
// tagged), then any delete followed by any push (incl. tagging an already stored
// manifest whose references were just deleted): in the resulting state every tag still
// resolves and everything it references is retrievable.
func VerifC14_DeleteThenPush() {
	u := newC02universe()
	reg := NewWithConfig(&Config{ImmutableTags: true})
	m := &c02model{immutable: true, repos: map[string]*c02repo{}, u: u}
	for bi := range u.blobs {
		_, err := reg.PushBlob(vctx, "r1", ociregistry.Descriptor{MediaType: "application/octet-stream", Digest: u.bdig[bi], Size: int64(len(u.blobs[bi]))}, bytes.NewReader(u.blobs[bi]))
		verifAssert(err == nil, "setup")
		m.pushBlob("r1", bi, true, true, true)
	}
	for di, tag := range []string{"", "", "t2", ""} {
		if tag != "" && !verifBool("setup.tagged") {
			tag = ""
		}
		d := u.docs[di]
		_, err := reg.PushManifest(vctx, "r1", tag, d.data, d.mediaType)
		verifAssert(err == nil, "setup")
		m.pushManifest("r1", tag, d, d.mediaType)
	}
	verifAssert(c14tagsIntact(reg, u, "r1", 3), "tags-intact-after-setup")
	c02stepRestricted(reg, m, "del", []int{3, 4, 5})
	// a delete never breaks what a tag reaches (at any depth)
	verifAssert(c14tagsIntact(reg, u, "r1", 3), "everything-referenced-from-a-tag-stays-retrievable")
	before := c14take(reg, u, "r1")
	c02stepRestricted(reg, m, "push", []int{0, 1})
	// a push keeps every existing binding and everything reachable from it ...
	for tag, d := range before.tagDesc {
		got, err := reg.ResolveTag(vctx, "r1", tag)
		verifAssert(err == nil && got.Digest == d.Digest && got.MediaType == d.MediaType, "tag-binding-kept-forever")
	}
	for i, dg := range before.closure {
		var err error
		if before.isBlob[i] {
			_, err = reg.ResolveBlob(vctx, "r1", dg)
		} else {
			_, err = reg.ResolveManifest(vctx, "r1", dg)
		}
		verifAssert(err == nil, "everything-referenced-from-a-tag-stays-retrievable")
	}
	// ... and a manifest that gets tagged now has everything it references directly (a
	// child manifest's own references are checked when the child is pushed, and may have
	// been deleted since while the child was untagged: the property speaks of what
	// *remains* retrievable, so only direct references are demanded here)
	verifAssert(c14tagsIntact(reg, u, "r1", 0), "a-tagged-manifests-direct-references-are-retrievable")
	verifCover("end")
}

func init() {
	verifRegister("VerifC14_DeleteThenPush", VerifC14_DeleteThenPush)
}
