package ocimem

// C05 (kernel): map-key listings are ascending, complete, duplicate-free and start
// strictly after the start point, for every map iteration order.

import (
	"strings"

	"cuelabs.dev/go/oci/ociregistry"
)

func VerifC05_MapKeys() {
	n := verifChoose("n", verifParam("n", 3)+1)
	m := map[string]int{}
	var keys []string
	for i := 0; i < n; i++ {
		k := verifAtom("key")
		for _, o := range keys {
			verifAssume(o != k)
		}
		keys = append(keys, k)
		m[k] = i
	}
	after := verifAtom("startAfter")
	verifMapOrder(true)
	got, err := ociregistry.All(mapKeysIter(m, strings.Compare, after))
	verifMapOrder(false)
	verifAssert(err == nil, "no-error")
	asc := true
	for i := 1; i < len(got); i++ {
		asc = asc && got[i-1] < got[i]
	}
	verifAssert(asc, "strictly-ascending")
	for _, x := range got {
		verifAssert(x > after, "strictly-after-start")
		_, ok := m[x]
		verifAssert(ok, "only-keys")
	}
	want := 0
	for _, k := range keys {
		if k > after {
			want++
		}
	}
	verifAssert(len(got) == want, "complete")
	verifCover("end")
}

func init() {
	verifRegister("VerifC05_MapKeys", VerifC05_MapKeys)
}
