package ociregistry

// C20: the function-table registry is total. One harness per Interface method; the
// receiver's nil-ness, all 18 function fields and NewError are independent symbolic
// booleans (set / unset), decided by the solver.

import (
	"context"
	"errors"
	"io"
)

type c20key struct{}

var (
	c20ctx    = context.WithValue(context.Background(), c20key{}, "ctx")
	c20err    = errors.New("c20 stub error")
	c20newErr = errors.New("c20 NewError result")
	c20desc   = Descriptor{MediaType: "application/x-c20", Size: 42, Digest: "sha256:c20"}
)

type c20reader struct{ BlobReader }
type c20writer struct{ BlobWriter }

// c20rec records which stub was called and with what.
type c20rec struct {
	calls   int
	method  string
	ctxOK   bool
	s1, s2  string
	dig     Digest
	i1      int64
	i2      int
	desc    Descriptor
	r       io.Reader
	data    []byte
	neCalls int
	neMeth  string
	neRepo  string
}

func (c *c20rec) hit(ctx context.Context, method string) {
	c.calls++
	c.method = method
	c.ctxOK = ctx == c20ctx
}

func c20funcs(c *c20rec, rd BlobReader, wr BlobWriter, seqS Seq[string], seqD Seq[Descriptor]) *Funcs {
	f := &Funcs{
		NewError: verifMaybeNil("NewError", func(ctx context.Context, methodName, repo string) error {
			c.neCalls++
			c.neMeth, c.neRepo = methodName, repo
			return c20newErr
		}),
		GetBlob_: verifMaybeNil("GetBlob_", func(ctx context.Context, repo string, digest Digest) (BlobReader, error) {
			c.hit(ctx, "GetBlob")
			c.s1, c.dig = repo, digest
			return rd, c20err
		}),
		GetBlobRange_: verifMaybeNil("GetBlobRange_", func(ctx context.Context, repo string, digest Digest, o0, o1 int64) (BlobReader, error) {
			c.hit(ctx, "GetBlobRange")
			c.s1, c.dig, c.i1, c.i2 = repo, digest, o0, int(o1)
			return rd, c20err
		}),
		GetManifest_: verifMaybeNil("GetManifest_", func(ctx context.Context, repo string, digest Digest) (BlobReader, error) {
			c.hit(ctx, "GetManifest")
			c.s1, c.dig = repo, digest
			return rd, c20err
		}),
		GetTag_: verifMaybeNil("GetTag_", func(ctx context.Context, repo string, tag string) (BlobReader, error) {
			c.hit(ctx, "GetTag")
			c.s1, c.s2 = repo, tag
			return rd, c20err
		}),
		ResolveBlob_: verifMaybeNil("ResolveBlob_", func(ctx context.Context, repo string, digest Digest) (Descriptor, error) {
			c.hit(ctx, "ResolveBlob")
			c.s1, c.dig = repo, digest
			return c20desc, c20err
		}),
		ResolveManifest_: verifMaybeNil("ResolveManifest_", func(ctx context.Context, repo string, digest Digest) (Descriptor, error) {
			c.hit(ctx, "ResolveManifest")
			c.s1, c.dig = repo, digest
			return c20desc, c20err
		}),
		ResolveTag_: verifMaybeNil("ResolveTag_", func(ctx context.Context, repo string, tag string) (Descriptor, error) {
			c.hit(ctx, "ResolveTag")
			c.s1, c.s2 = repo, tag
			return c20desc, c20err
		}),
		PushBlob_: verifMaybeNil("PushBlob_", func(ctx context.Context, repo string, desc Descriptor, r io.Reader) (Descriptor, error) {
			c.hit(ctx, "PushBlob")
			c.s1, c.desc, c.r = repo, desc, r
			return c20desc, c20err
		}),
		PushBlobChunked_: verifMaybeNil("PushBlobChunked_", func(ctx context.Context, repo string, chunkSize int) (BlobWriter, error) {
			c.hit(ctx, "PushBlobChunked")
			c.s1, c.i2 = repo, chunkSize
			return wr, c20err
		}),
		PushBlobChunkedResume_: verifMaybeNil("PushBlobChunkedResume_", func(ctx context.Context, repo, id string, offset int64, chunkSize int) (BlobWriter, error) {
			c.hit(ctx, "PushBlobChunkedResume")
			c.s1, c.s2, c.i1, c.i2 = repo, id, offset, chunkSize
			return wr, c20err
		}),
		MountBlob_: verifMaybeNil("MountBlob_", func(ctx context.Context, fromRepo, toRepo string, digest Digest) (Descriptor, error) {
			c.hit(ctx, "MountBlob")
			c.s1, c.s2, c.dig = fromRepo, toRepo, digest
			return c20desc, c20err
		}),
		PushManifest_: verifMaybeNil("PushManifest_", func(ctx context.Context, repo string, tag string, contents []byte, mediaType string) (Descriptor, error) {
			c.hit(ctx, "PushManifest")
			c.s1, c.s2, c.data, c.desc.MediaType = repo, tag, contents, mediaType
			return c20desc, c20err
		}),
		DeleteBlob_: verifMaybeNil("DeleteBlob_", func(ctx context.Context, repo string, digest Digest) error {
			c.hit(ctx, "DeleteBlob")
			c.s1, c.dig = repo, digest
			return c20err
		}),
		DeleteManifest_: verifMaybeNil("DeleteManifest_", func(ctx context.Context, repo string, digest Digest) error {
			c.hit(ctx, "DeleteManifest")
			c.s1, c.dig = repo, digest
			return c20err
		}),
		DeleteTag_: verifMaybeNil("DeleteTag_", func(ctx context.Context, repo string, name string) error {
			c.hit(ctx, "DeleteTag")
			c.s1, c.s2 = repo, name
			return c20err
		}),
		Repositories_: verifMaybeNil("Repositories_", func(ctx context.Context, startAfter string) Seq[string] {
			c.hit(ctx, "Repositories")
			c.s1 = startAfter
			return seqS
		}),
		Tags_: verifMaybeNil("Tags_", func(ctx context.Context, repo string, startAfter string) Seq[string] {
			c.hit(ctx, "Tags")
			c.s1, c.s2 = repo, startAfter
			return seqS
		}),
		Referrers_: verifMaybeNil("Referrers_", func(ctx context.Context, repo string, digest Digest, artifactType string) Seq[Descriptor] {
			c.hit(ctx, "Referrers")
			c.s1, c.dig, c.s2 = repo, digest, artifactType
			return seqD
		}),
	}
	if verifBool("nilReceiver") {
		return nil
	}
	return f
}

// c20unset checks the outcome for an unset field (or nil receiver).
func c20unset(c *c20rec, f *Funcs, err error, method, repo string) {
	verifAssert(c.calls == 0, "unset-not-delegated")
	verifAssert(err != nil, "unset-fails")
	if f != nil && f.NewError != nil {
		verifAssert(err == c20newErr && c.neCalls == 1 && c.neRepo == repo, "unset-custom-error")
		verifCover("custom-error")
	} else {
		verifAssert(errors.Is(err, ErrUnsupported), "unset-unsupported")
		verifAssert(c.neCalls == 0, "unset-no-newerror-call")
		verifCover("unsupported")
	}
}

func c20set(c *c20rec, method string) {
	verifAssert(c.calls == 1 && c.method == method && c.ctxOK && c.neCalls == 0, "set-delegated-once")
	verifCover("delegated")
}

func c20seqErr[T any](seq Seq[T]) (n int, err error) {
	if seq == nil {
		return -1, nil
	}
	seq(func(_ T, e error) bool {
		n++
		err = e
		return true
	})
	return n, err
}

// String arguments are symbolic too (0 or 1 arbitrary byte each, so the empty string is
// included): the table must not look at them.
var (
	c20repo, c20tag, c20id, c20from, c20to, c20at, c20mt string
	c20dig                                               Digest
)

func c20args() {
	c20repo, c20tag, c20id = verifString("repo", 1), verifString("tag", 1), verifString("id", 1)
	c20from, c20to, c20at, c20mt = verifString("from", 1), verifString("to", 1), verifString("at", 1), verifString("mt", 1)
	c20dig = Digest(verifString("dig", 1))
}

func VerifC20_GetBlob() {
	c20args()
	c := &c20rec{}
	rd := &c20reader{}
	f := c20funcs(c, rd, nil, nil, nil)
	r, err := f.GetBlob(c20ctx, c20repo, c20dig)
	if f != nil && f.GetBlob_ != nil {
		c20set(c, "GetBlob")
		verifAssert(r == BlobReader(rd) && err == c20err && c.s1 == c20repo && c.dig == c20dig, "set-same-args-results")
	} else {
		verifAssert(r == nil, "unset-nil-result")
		c20unset(c, f, err, "GetBlob", c20repo)
	}
}

func VerifC20_GetBlobRange() {
	c20args()
	c := &c20rec{}
	rd := &c20reader{}
	f := c20funcs(c, rd, nil, nil, nil)
	o0, o1 := verifInt64("o0"), verifInt64("o1")
	r, err := f.GetBlobRange(c20ctx, c20repo, c20dig, o0, o1)
	if f != nil && f.GetBlobRange_ != nil {
		c20set(c, "GetBlobRange")
		verifAssert(r == BlobReader(rd) && err == c20err && c.s1 == c20repo && c.dig == c20dig && c.i1 == o0 && c.i2 == int(o1), "set-same-args-results")
	} else {
		verifAssert(r == nil, "unset-nil-result")
		c20unset(c, f, err, "GetBlobRange", c20repo)
	}
}

func VerifC20_GetManifest() {
	c20args()
	c := &c20rec{}
	rd := &c20reader{}
	f := c20funcs(c, rd, nil, nil, nil)
	r, err := f.GetManifest(c20ctx, c20repo, c20dig)
	if f != nil && f.GetManifest_ != nil {
		c20set(c, "GetManifest")
		verifAssert(r == BlobReader(rd) && err == c20err && c.s1 == c20repo && c.dig == c20dig, "set-same-args-results")
	} else {
		verifAssert(r == nil, "unset-nil-result")
		c20unset(c, f, err, "GetManifest", c20repo)
	}
}

func VerifC20_GetTag() {
	c20args()
	c := &c20rec{}
	rd := &c20reader{}
	f := c20funcs(c, rd, nil, nil, nil)
	r, err := f.GetTag(c20ctx, c20repo, c20tag)
	if f != nil && f.GetTag_ != nil {
		c20set(c, "GetTag")
		verifAssert(r == BlobReader(rd) && err == c20err && c.s1 == c20repo && c.s2 == c20tag, "set-same-args-results")
	} else {
		verifAssert(r == nil, "unset-nil-result")
		c20unset(c, f, err, "GetTag", c20repo)
	}
}

func VerifC20_ResolveBlob() {
	c20args()
	c := &c20rec{}
	f := c20funcs(c, nil, nil, nil, nil)
	d, err := f.ResolveBlob(c20ctx, c20repo, c20dig)
	if f != nil && f.ResolveBlob_ != nil {
		c20set(c, "ResolveBlob")
		verifAssert(d.Digest == c20desc.Digest && d.Size == 42 && err == c20err && c.s1 == c20repo && c.dig == c20dig, "set-same-args-results")
	} else {
		verifAssert(d.Digest == "" && d.Size == 0, "unset-zero-result")
		c20unset(c, f, err, "ResolveBlob", c20repo)
	}
}

func VerifC20_ResolveManifest() {
	c20args()
	c := &c20rec{}
	f := c20funcs(c, nil, nil, nil, nil)
	d, err := f.ResolveManifest(c20ctx, c20repo, c20dig)
	if f != nil && f.ResolveManifest_ != nil {
		c20set(c, "ResolveManifest")
		verifAssert(d.Digest == c20desc.Digest && d.Size == 42 && err == c20err && c.s1 == c20repo && c.dig == c20dig, "set-same-args-results")
	} else {
		verifAssert(d.Digest == "" && d.Size == 0, "unset-zero-result")
		c20unset(c, f, err, "ResolveManifest", c20repo)
	}
}

func VerifC20_ResolveTag() {
	c20args()
	c := &c20rec{}
	f := c20funcs(c, nil, nil, nil, nil)
	d, err := f.ResolveTag(c20ctx, c20repo, c20tag)
	if f != nil && f.ResolveTag_ != nil {
		c20set(c, "ResolveTag")
		verifAssert(d.Digest == c20desc.Digest && d.Size == 42 && err == c20err && c.s1 == c20repo && c.s2 == c20tag, "set-same-args-results")
	} else {
		verifAssert(d.Digest == "" && d.Size == 0, "unset-zero-result")
		c20unset(c, f, err, "ResolveTag", c20repo)
	}
}

type c20ioReader struct{}

func (*c20ioReader) Read([]byte) (int, error) { return 0, io.EOF }

func VerifC20_PushBlob() {
	c20args()
	c := &c20rec{}
	f := c20funcs(c, nil, nil, nil, nil)
	in := Descriptor{MediaType: "m", Size: verifInt64("size"), Digest: "sha256:in"}
	rr := &c20ioReader{}
	d, err := f.PushBlob(c20ctx, c20repo, in, rr)
	if f != nil && f.PushBlob_ != nil {
		c20set(c, "PushBlob")
		verifAssert(d.Digest == c20desc.Digest && err == c20err && c.s1 == c20repo && c.desc.Size == in.Size && c.desc.Digest == in.Digest && c.r == io.Reader(rr), "set-same-args-results")
	} else {
		verifAssert(d.Digest == "" && d.Size == 0, "unset-zero-result")
		c20unset(c, f, err, "PushBlob", c20repo)
	}
}

func VerifC20_PushBlobChunked() {
	c20args()
	c := &c20rec{}
	wr := &c20writer{}
	f := c20funcs(c, nil, wr, nil, nil)
	cs := verifInt("chunkSize")
	w, err := f.PushBlobChunked(c20ctx, c20repo, cs)
	if f != nil && f.PushBlobChunked_ != nil {
		c20set(c, "PushBlobChunked")
		verifAssert(w == BlobWriter(wr) && err == c20err && c.s1 == c20repo && c.i2 == cs, "set-same-args-results")
	} else {
		verifAssert(w == nil, "unset-nil-result")
		c20unset(c, f, err, "PushBlobChunked", c20repo)
	}
}

func VerifC20_PushBlobChunkedResume() {
	c20args()
	c := &c20rec{}
	wr := &c20writer{}
	f := c20funcs(c, nil, wr, nil, nil)
	off, cs := verifInt64("offset"), verifInt("chunkSize")
	w, err := f.PushBlobChunkedResume(c20ctx, c20repo, c20id, off, cs)
	if f != nil && f.PushBlobChunkedResume_ != nil {
		c20set(c, "PushBlobChunkedResume")
		verifAssert(w == BlobWriter(wr) && err == c20err && c.s1 == c20repo && c.s2 == c20id && c.i1 == off && c.i2 == cs, "set-same-args-results")
	} else {
		verifAssert(w == nil, "unset-nil-result")
		c20unset(c, f, err, "PushBlobChunkedResume", c20repo)
	}
}

func VerifC20_MountBlob() {
	c20args()
	c := &c20rec{}
	f := c20funcs(c, nil, nil, nil, nil)
	d, err := f.MountBlob(c20ctx, c20from, c20to, c20dig)
	if f != nil && f.MountBlob_ != nil {
		c20set(c, "MountBlob")
		verifAssert(d.Digest == c20desc.Digest && err == c20err && c.s1 == c20from && c.s2 == c20to && c.dig == c20dig, "set-same-args-results")
	} else {
		verifAssert(d.Digest == "" && d.Size == 0, "unset-zero-result")
		c20unset(c, f, err, "MountBlob", c20to)
	}
}

func VerifC20_PushManifest() {
	c20args()
	c := &c20rec{}
	f := c20funcs(c, nil, nil, nil, nil)
	data := []byte{1, 2, 3}
	d, err := f.PushManifest(c20ctx, c20repo, c20tag, data, c20mt)
	if f != nil && f.PushManifest_ != nil {
		c20set(c, "PushManifest")
		verifAssert(d.Digest == c20desc.Digest && err == c20err && c.s1 == c20repo && c.s2 == c20tag && len(c.data) == 3 && &c.data[0] == &data[0] && c.desc.MediaType == c20mt, "set-same-args-results")
	} else {
		verifAssert(d.Digest == "" && d.Size == 0, "unset-zero-result")
		c20unset(c, f, err, "PushManifest", c20repo)
	}
}

func VerifC20_DeleteBlob() {
	c20args()
	c := &c20rec{}
	f := c20funcs(c, nil, nil, nil, nil)
	err := f.DeleteBlob(c20ctx, c20repo, c20dig)
	if f != nil && f.DeleteBlob_ != nil {
		c20set(c, "DeleteBlob")
		verifAssert(err == c20err && c.s1 == c20repo && c.dig == c20dig, "set-same-args-results")
	} else {
		c20unset(c, f, err, "DeleteBlob", c20repo)
	}
}

func VerifC20_DeleteManifest() {
	c20args()
	c := &c20rec{}
	f := c20funcs(c, nil, nil, nil, nil)
	err := f.DeleteManifest(c20ctx, c20repo, c20dig)
	if f != nil && f.DeleteManifest_ != nil {
		c20set(c, "DeleteManifest")
		verifAssert(err == c20err && c.s1 == c20repo && c.dig == c20dig, "set-same-args-results")
	} else {
		c20unset(c, f, err, "DeleteManifest", c20repo)
	}
}

func VerifC20_DeleteTag() {
	c20args()
	c := &c20rec{}
	f := c20funcs(c, nil, nil, nil, nil)
	err := f.DeleteTag(c20ctx, c20repo, c20tag)
	if f != nil && f.DeleteTag_ != nil {
		c20set(c, "DeleteTag")
		verifAssert(err == c20err && c.s1 == c20repo && c.s2 == c20tag, "set-same-args-results")
	} else {
		c20unset(c, f, err, "DeleteTag", c20repo)
	}
}

func VerifC20_Repositories() {
	c20args()
	c := &c20rec{}
	marker := 0
	seq := Seq[string](func(yield func(string, error) bool) { marker++; yield("x", nil) })
	f := c20funcs(c, nil, nil, seq, nil)
	got := f.Repositories(c20ctx, "start")
	n, err := c20seqErr(got)
	if f != nil && f.Repositories_ != nil {
		c20set(c, "Repositories")
		verifAssert(marker == 1 && n == 1 && err == nil && c.s1 == "start", "set-same-args-results")
	} else {
		verifAssert(marker == 0 && n == 1, "unset-error-seq")
		c20unset(c, f, err, "Repositories", "")
	}
}

func VerifC20_Tags() {
	c20args()
	c := &c20rec{}
	marker := 0
	seq := Seq[string](func(yield func(string, error) bool) { marker++; yield("x", nil) })
	f := c20funcs(c, nil, nil, seq, nil)
	got := f.Tags(c20ctx, c20repo, "start")
	n, err := c20seqErr(got)
	if f != nil && f.Tags_ != nil {
		c20set(c, "Tags")
		verifAssert(marker == 1 && n == 1 && err == nil && c.s1 == c20repo && c.s2 == "start", "set-same-args-results")
	} else {
		verifAssert(marker == 0 && n == 1, "unset-error-seq")
		c20unset(c, f, err, "Tags", c20repo)
	}
}

func VerifC20_Referrers() {
	c20args()
	c := &c20rec{}
	marker := 0
	seq := Seq[Descriptor](func(yield func(Descriptor, error) bool) { marker++; yield(Descriptor{}, nil) })
	f := c20funcs(c, nil, nil, nil, seq)
	got := f.Referrers(c20ctx, c20repo, c20dig, c20at)
	n, err := c20seqErr(got)
	if f != nil && f.Referrers_ != nil {
		c20set(c, "Referrers")
		verifAssert(marker == 1 && n == 1 && err == nil && c.s1 == c20repo && c.dig == c20dig && c.s2 == c20at, "set-same-args-results")
	} else {
		verifAssert(marker == 0 && n == 1, "unset-error-seq")
		c20unset(c, f, err, "Referrers", c20repo)
	}
}

func init() {
	verifRegister("VerifC20_GetBlob", VerifC20_GetBlob)
	verifRegister("VerifC20_GetBlobRange", VerifC20_GetBlobRange)
	verifRegister("VerifC20_GetManifest", VerifC20_GetManifest)
	verifRegister("VerifC20_GetTag", VerifC20_GetTag)
	verifRegister("VerifC20_ResolveBlob", VerifC20_ResolveBlob)
	verifRegister("VerifC20_ResolveManifest", VerifC20_ResolveManifest)
	verifRegister("VerifC20_ResolveTag", VerifC20_ResolveTag)
	verifRegister("VerifC20_PushBlob", VerifC20_PushBlob)
	verifRegister("VerifC20_PushBlobChunked", VerifC20_PushBlobChunked)
	verifRegister("VerifC20_PushBlobChunkedResume", VerifC20_PushBlobChunkedResume)
	verifRegister("VerifC20_MountBlob", VerifC20_MountBlob)
	verifRegister("VerifC20_PushManifest", VerifC20_PushManifest)
	verifRegister("VerifC20_DeleteBlob", VerifC20_DeleteBlob)
	verifRegister("VerifC20_DeleteManifest", VerifC20_DeleteManifest)
	verifRegister("VerifC20_DeleteTag", VerifC20_DeleteTag)
	verifRegister("VerifC20_Repositories", VerifC20_Repositories)
	verifRegister("VerifC20_Tags", VerifC20_Tags)
	verifRegister("VerifC20_Referrers", VerifC20_Referrers)
}
