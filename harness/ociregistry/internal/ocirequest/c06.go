package ocirequest

// C06 (routing part) and C17 (router agreement): the request parser is total and
// never yields a request with a syntactically invalid repository, tag or digest.

import (
	"net/url"
	"strings"

	"cuelabs.dev/go/oci/ociregistry/ociref"
)

const c06digest = "sha256:aaaaaaaaaaaaaaaaaaaaaaaaaaaaaaaaaaaaaaaaaaaaaaaaaaaaaaaaaaaaaaaa"

var c06methods = []string{"GET", "HEAD", "PUT", "POST", "PATCH", "DELETE", "OPTIONS"}

func c06checkRequest(r *Request) {
	if r.Kind != ReqPing && r.Kind != ReqCatalogList {
		verifAssert(ociref.IsValidRepository(r.Repo), "parsed-repo-is-valid")
	}
	if r.Tag != "" {
		verifAssert(ociref.IsValidTag(r.Tag), "parsed-tag-is-valid")
	}
	if r.Digest != "" {
		verifAssert(ociref.IsValidDigest(r.Digest), "parsed-digest-is-valid")
	}
	if r.FromRepo != "" {
		verifAssert(ociref.IsValidRepository(r.FromRepo), "parsed-from-repo-is-valid")
	}
	switch r.Kind {
	case ReqManifestGet, ReqManifestHead, ReqManifestPut, ReqManifestDelete:
		verifAssert((r.Tag != "") != (r.Digest != ""), "manifest-request-has-exactly-one-of-tag-and-digest")
	case ReqBlobGet, ReqBlobHead, ReqBlobDelete, ReqBlobCompleteUpload, ReqBlobUploadBlob, ReqReferrersList:
		verifAssert(r.Digest != "", "blob-request-has-digest")
	case ReqBlobMount:
		verifAssert(r.Digest != "" && r.FromRepo != "", "mount-has-digest-and-from")
	}
}

// VerifC06_RouteFree: arbitrary bytes after /v2/.
func VerifC06_RouteFree() {
	method := c06methods[verifChoose("method", len(c06methods))]
	path := "/v2/" + verifString("path", verifParam("maxlen", 5))
	r, err := Parse(method, &url.URL{Path: path})
	if err == nil {
		c06checkRequest(r)
		verifCover("parsed")
	}
	verifCover("end")
}

// VerifC06_RouteSkeleton: /v2/<repo>/<word>/<last> with symbolic repo and last parts,
// including routing words as repository elements, empty segments and query parameters.
func VerifC06_RouteSkeleton() {
	// the method is only ever compared with constants: an atom covers every method string
	method := verifAtom("method")
	k := verifParam("sym", 2)
	seg := func(name string) string {
		words := []string{"blobs", "uploads", "manifests", "", "tags", "referrers", "list"}
		if n := verifParam("nwords", len(words)); n < len(words) {
			words = words[:n]
		}
		j := verifChoose(name+".kind", len(words)+1)
		if j < len(words) {
			return words[j]
		}
		return verifString(name, k)
	}
	repo := seg("repo0")
	if verifBool("twoElements") {
		repo += "/" + seg("repo1")
	}
	word := []string{"blobs", "manifests", "tags", "referrers", "blobs/uploads", "uploads"}[verifChoose("word", 6)]
	lasts := []string{c06digest, "list", "", "dGVzdA", "sha256:xyz"}
	var last string
	if j := verifChoose("last.kind", len(lasts)+1); j < len(lasts) {
		last = lasts[j]
	} else {
		last = verifString("last", k+1)
	}
	queries := []string{"", "digest=" + c06digest, "mount=" + c06digest + "&from=a/b", "mount=" + c06digest + "&from=BAD", "digest=bad", "%zz", "mount=" + c06digest, "mount=x&from=a", "n=3&last=x", "n=x", "n=-1"}
	if n := verifParam("nq", len(queries)); n < len(queries) {
		queries = queries[:n]
	}
	q := queries[verifChoose("query", len(queries))]
	path := "/v2/" + repo + "/" + word + "/" + last
	r, err := Parse(method, &url.URL{Path: path, RawQuery: q})
	verifObserve("ok", err == nil)
	if err == nil {
		verifObserve("kind", int(r.Kind))
		verifObserve("repo", r.Repo)
		verifObserve("tag", r.Tag)
		verifObserve("digest", r.Digest)
		c06checkRequest(r)
		verifCover("parsed")
	}
	verifCover("end")
}

// VerifC17_RouterAgrees: for manifest URLs the router accepts exactly the names the
// validators accept.
func VerifC17_RouterAgrees() {
	k := verifParam("sym", 2)
	repo := verifString("repo", k+1)
	ref := verifString("ref", k+1)
	verifAssume(!strings.Contains(ref, "/"))
	r, err := Parse("GET", &url.URL{Path: "/v2/" + repo + "/manifests/" + ref})
	want := ociref.IsValidRepository(repo) && (ociref.IsValidTag(ref) || ociref.IsValidDigest(ref))
	verifAssert((err == nil) == want, "router-accepts-exactly-the-valid-names")
	if err == nil {
		verifAssert(r.Repo == repo && (r.Tag == ref || r.Digest == ref), "router-keeps-the-parts")
		verifCover("parsed")
	}
	// blobs: digest position
	_, err = Parse("GET", &url.URL{Path: "/v2/" + repo + "/blobs/" + ref})
	verifAssert((err == nil) == (ociref.IsValidRepository(repo) && ociref.IsValidDigest(ref)), "blob-route-accepts-exactly-valid-digests")
	verifCover("end")
}

func init() {
	verifRegister("VerifC06_RouteFree", VerifC06_RouteFree)
	verifRegister("VerifC06_RouteSkeleton", VerifC06_RouteSkeleton)
	verifRegister("VerifC17_RouterAgrees", VerifC17_RouterAgrees)
}
