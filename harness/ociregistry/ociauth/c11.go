package ociauth

// C11 (parser part): the Www-Authenticate parser is total on arbitrary header text.

import (
	"net/http"
	"strings"
)

func c11checkHeader(h *authHeader) {
	if h == nil {
		return
	}
	verifAssert(h.scheme != "", "scheme-non-empty")
	verifAssert(h.scheme == strings.ToLower(h.scheme), "scheme-lower-case")
	for k, v := range h.params {
		verifAssert(k != "" && k == strings.ToLower(k), "param-key-non-empty-lower-case")
		verifAssert(v != "", "param-value-non-empty")
	}
}

// VerifC11_ParserTotal: arbitrary bytes.
func VerifC11_ParserTotal() {
	s := verifString("header", verifParam("maxlen", 4))
	h := parseWWWAuthenticate(s)
	verifObserve("parsed", h != nil)
	if h != nil {
		verifObserve("scheme", h.scheme)
		verifObserve("nparams", len(h.params))
	}
	c11checkHeader(h)
	verifCover("end")
}

// VerifC11_ParserSkeleton: structured challenges with symbolic bytes inside the
// quoted strings (escapes, quotes, separators) and around the separators.
func VerifC11_ParserSkeleton() {
	k := verifParam("sym", 3)
	var s string
	switch verifChoose("shape", 5) {
	case 0:
		s = `Bearer realm="` + verifString("q", k) + `",service=` + verifString("t", 2)
	case 1:
		s = `Basic realm="` + verifString("q", k)
	case 2:
		s = `Bearer ` + verifString("k", 2) + `=` + verifString("v", k)
	case 3:
		s = `Bearer realm="a\` + verifString("q", k) + `"` + verifString("rest", 2)
	default:
		s = verifString("scheme", 2) + ` realm="x"` + verifString("sep", 2) + `scope="y"`
	}
	h := parseWWWAuthenticate(s)
	c11checkHeader(h)
	if h != nil {
		verifCover("parsed")
	}
	verifCover("end")
}

// VerifC11_ChallengeChoice: Basic is preferred over Bearer, unknown schemes are ignored.
func VerifC11_ChallengeChoice() {
	menu := []string{`Basic realm="r"`, `Bearer realm="https://t/token",service="s"`, `Negotiate x=y`, `garbage"`, ``}
	n := verifChoose("n", 4)
	var hs []string
	for i := 0; i < n; i++ {
		hs = append(hs, menu[verifChoose("h", len(menu))])
	}
	resp := &http.Response{Header: http.Header{}}
	if n > 0 {
		resp.Header["Www-Authenticate"] = hs
	}
	h := challengeFromResponse(resp)
	hasBasic, hasBearer := false, false
	for _, x := range hs {
		hasBasic = hasBasic || strings.HasPrefix(x, "Basic")
		hasBearer = hasBearer || strings.HasPrefix(x, "Bearer")
	}
	switch {
	case hasBasic:
		verifAssert(h != nil && h.scheme == "basic", "basic-preferred")
	case hasBearer:
		verifAssert(h != nil && h.scheme == "bearer" && h.params["realm"] == "https://t/token" && h.params["service"] == "s", "bearer-used")
	default:
		verifAssert(h == nil, "no-usable-challenge")
	}
	verifCover("end")
}

func init() {
	verifRegister("VerifC11_ParserTotal", VerifC11_ParserTotal)
	verifRegister("VerifC11_ParserSkeleton", VerifC11_ParserSkeleton)
	verifRegister("VerifC11_ChallengeChoice", VerifC11_ChallengeChoice)
}
