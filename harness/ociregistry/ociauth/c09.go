package ociauth

// C09: auth scopes behave as finite sets of (type, resource, action) triples.

import "slices"

func c09atomTriple(name string) ResourceScope {
	return ResourceScope{ResourceType: verifAtom(name + ".type"), Resource: verifAtom(name + ".res"), Action: verifAtom(name + ".act")}
}

func c09list(name string, max int) []ResourceScope {
	n := verifChoose(name+".n", max+1)
	var l []ResourceScope
	for i := 0; i < n; i++ {
		l = append(l, c09atomTriple(name))
	}
	return l
}

// The oracle functions are written without early exits so that the engine can fold them
// into single terms instead of forking.

func c09member(l []ResourceScope, p ResourceScope) bool {
	found := false
	for _, x := range l {
		found = found || x == p
	}
	return found
}

func c09subset(a, b []ResourceScope) bool { // a ⊆ b
	all := true
	for _, x := range a {
		all = all && c09member(b, x)
	}
	return all
}

func c09distinct(l []ResourceScope) int {
	n := 0
	for i, x := range l {
		if !c09member(l[:i], x) {
			n++
		}
	}
	return n
}

func c09iter(s Scope) []ResourceScope {
	var out []ResourceScope
	s.Iter()(func(r ResourceScope) bool {
		out = append(out, r)
		return true
	})
	return out
}

func c09less(a, b ResourceScope) bool {
	return a.ResourceType < b.ResourceType || (a.ResourceType == b.ResourceType && (a.Resource < b.Resource || (a.Resource == b.Resource && a.Action < b.Action)))
}

func c09ascending(l []ResourceScope) bool {
	ok := true
	for i := 1; i < len(l); i++ {
		ok = ok && c09less(l[i-1], l[i])
	}
	return ok
}

// VerifC09_SetLaws: construction, iteration, length, membership.
func VerifC09_SetLaws() {
	a := c09list("a", verifParam("n", 2))
	sa := NewScope(slices.Clone(a)...)
	it := c09iter(sa)
	verifAssert(c09ascending(it), "iter-strictly-ascending")
	verifAssert(c09subset(it, a) && c09subset(a, it), "iter-is-exactly-the-set")
	verifAssert(sa.Len() == c09distinct(a), "len-is-cardinality")
	verifAssert(sa.IsEmpty() == (len(a) == 0), "isempty")
	p := c09atomTriple("p")
	verifAssert(sa.Holds(p) == c09member(a, p), "holds-is-membership")
	verifAssert(sa.Holds(CatalogScope) == c09member(a, CatalogScope), "catalog-only-if-catalog")
	verifAssert(UnlimitedScope().Holds(p) && UnlimitedScope().Contains(sa) && (!sa.Contains(UnlimitedScope())), "unlimited-contains-everything")
	verifCover("end")
}

// VerifC09_Pairs: containment, equality and union of two sets.
func VerifC09_Pairs() {
	n := verifParam("n", 2)
	a, b := c09list("a", n), c09list("b", n)
	sa, sb := NewScope(slices.Clone(a)...), NewScope(slices.Clone(b)...)
	verifAssert(sa.Contains(sb) == c09subset(b, a), "contains-is-superset")
	verifAssert(sa.Equal(sb) == (c09subset(a, b) && c09subset(b, a)), "equal-is-set-equality")
	u := sa.Union(sb)
	ui := c09iter(u)
	verifAssert(c09ascending(ui), "union-iter-strictly-ascending")
	both := append(slices.Clone(a), b...)
	verifAssert(c09subset(ui, both) && c09subset(both, ui), "union-is-set-union")
	p := c09atomTriple("p")
	verifAssert(u.Holds(p) == (c09member(a, p) || c09member(b, p)), "union-holds")
	verifAssert(u.Len() == c09distinct(both), "union-len")
	verifAssert(u.Contains(sa) && u.Contains(sb), "union-contains-operands")
	verifCover("end")
}

func init() {
	verifRegister("VerifC09_SetLaws", VerifC09_SetLaws)
	verifRegister("VerifC09_Pairs", VerifC09_Pairs)
}
