package ociauth

// C09: auth scopes behave as finite sets of (type, resource, action) triples.

import "slices"

func c09atomTriple(name string) ResourceScope {
	return ResourceScope{ResourceType: verifAtom(name + ".type"), Resource: verifAtom(name + ".res"), Action: verifAtom(name + ".act")}
}

func c09list(name string, max int) []ResourceScope {
	n := verifChoose(name+".n", max+1)
	var l []ResourceScope
	// sameResource=1: all triples of the list share one (symbolic) resource type and
	// resource and differ in their actions only - the per-repository action ordering, at
	// a fraction of the cost of fully independent triples
	same := verifParam("sameResource", 0) == 1
	var first ResourceScope
	for i := 0; i < n; i++ {
		t := c09atomTriple(name)
		if same {
			if i == 0 {
				first = t
			} else {
				t.ResourceType, t.Resource = first.ResourceType, first.Resource
			}
		}
		l = append(l, t)
	}
	return l
}

// The oracle functions are written without early exits so that the engine can fold them
// into single terms instead of forking.

func c09member(l []ResourceScope, p ResourceScope) bool {
	found := false
	for _, x := range l {
		found = found || x == p
	}
	return found
}

func c09subset(a, b []ResourceScope) bool { // a ⊆ b
	all := true
	for _, x := range a {
		all = all && c09member(b, x)
	}
	return all
}

func c09distinct(l []ResourceScope) int {
	n := 0
	for i, x := range l {
		if !c09member(l[:i], x) {
			n++
		}
	}
	return n
}

func c09iter(s Scope) []ResourceScope {
	var out []ResourceScope
	s.Iter()(func(r ResourceScope) bool {
		out = append(out, r)
		return true
	})
	return out
}

func c09less(a, b ResourceScope) bool {
	return a.ResourceType < b.ResourceType || (a.ResourceType == b.ResourceType && (a.Resource < b.Resource || (a.Resource == b.Resource && a.Action < b.Action)))
}

func c09ascending(l []ResourceScope) bool {
	ok := true
	for i := 1; i < len(l); i++ {
		ok = ok && c09less(l[i-1], l[i])
	}
	return ok
}

// VerifC09_SetLaws: construction, iteration, length, membership.
func VerifC09_SetLaws() {
	a := c09list("a", verifParam("n", 2))
	sa := NewScope(slices.Clone(a)...)
	it := c09iter(sa)
	verifAssert(c09ascending(it), "iter-strictly-ascending")
	verifAssert(c09subset(it, a) && c09subset(a, it), "iter-is-exactly-the-set")
	verifAssert(sa.Len() == c09distinct(a), "len-is-cardinality")
	verifAssert(sa.IsEmpty() == (len(a) == 0), "isempty")
	p := c09atomTriple("p")
	verifAssert(sa.Holds(p) == c09member(a, p), "holds-is-membership")
	verifAssert(sa.Holds(CatalogScope) == c09member(a, CatalogScope), "catalog-only-if-catalog")
	verifAssert(UnlimitedScope().Holds(p) && UnlimitedScope().Contains(sa) && (!sa.Contains(UnlimitedScope())), "unlimited-contains-everything")
	verifCover("end")
}

// VerifC09_Pairs: containment, equality and union of two sets.
func VerifC09_Pairs() {
	n := verifParam("n", 2)
	a, b := c09list("a", n), c09list("b", n)
	sa, sb := NewScope(slices.Clone(a)...), NewScope(slices.Clone(b)...)
	verifAssert(sa.Contains(sb) == c09subset(b, a), "contains-is-superset")
	verifAssert(sa.Equal(sb) == (c09subset(a, b) && c09subset(b, a)), "equal-is-set-equality")
	u := sa.Union(sb)
	ui := c09iter(u)
	verifAssert(c09ascending(ui), "union-iter-strictly-ascending")
	both := append(slices.Clone(a), b...)
	verifAssert(c09subset(ui, both) && c09subset(both, ui), "union-is-set-union")
	p := c09atomTriple("p")
	verifAssert(u.Holds(p) == (c09member(a, p) || c09member(b, p)), "union-holds")
	verifAssert(u.Len() == c09distinct(both), "union-len")
	verifAssert(u.Contains(sa) && u.Contains(sb), "union-contains-operands")
	verifCover("end")
}

func init() {
	verifRegister("VerifC09_SetLaws", VerifC09_SetLaws)
	verifRegister("VerifC09_Pairs", VerifC09_Pairs)
}

// ---- text level (byte-symbolic fields)

func c09plainByte(c byte) bool {
	// printable ASCII, not a space, colon or comma (the restriction stated in the property
	// for the print/parse round trip)
	return c > ' ' && c < 0x7f && c != ':' && c != ','
}

func c09field(name string, menu []string, k int) string {
	j := verifChoose(name+".kind", len(menu)+1)
	if j < len(menu) {
		return menu[j]
	}
	n := 1 + verifChoose(name+".len", k)
	s := verifStringN(name, n)
	for i := 0; i < len(s); i++ {
		verifAssume(c09plainByte(s[i]))
	}
	return s
}

func c09textTriple(name string, k int) ResourceScope {
	return ResourceScope{
		ResourceType: c09field(name+".type", []string{"repository", "registry"}, k),
		Resource:     c09field(name+".res", []string{"catalog"}, k),
		Action:       c09field(name+".act", []string{"pull", "push", "*"}, k),
	}
}

// VerifC09_PrintParse: printing a scope and parsing the text yields an equal scope.
func VerifC09_PrintParse() {
	k := verifParam("k", 1)
	n := 1 + verifChoose("n", verifParam("n", 2))
	var l []ResourceScope
	for i := 0; i < n; i++ {
		l = append(l, c09textTriple("t", k))
	}
	s := NewScope(l...)
	text := s.String()
	back := ParseScope(text)
	verifAssert(back.Equal(s), "parse-of-print-is-equal")
	verifAssert(back.String() == text, "print-is-stable")
	verifCover("end")
}

// VerifC09_UnionText: a union that adds nothing returns the receiver with its original text.
func VerifC09_UnionText() {
	k := verifParam("k", 1)
	a := c09textTriple("a", k)
	b := c09textTriple("b", k)
	// an arbitrary (possibly non-canonical) text for {a, b}: either order, with a duplicate
	render := func(t ResourceScope) string { return t.ResourceType + ":" + t.Resource + ":" + t.Action }
	var text string
	switch verifChoose("shape", 3) {
	case 0:
		text = render(a) + " " + render(b)
	case 1:
		text = render(b) + "  " + render(a)
	default:
		text = render(a) + " " + render(b) + " " + render(a)
	}
	s := ParseScope(text)
	var t Scope
	switch verifChoose("other", 4) {
	case 0:
		t = Scope{}
	case 1:
		t = NewScope(a)
	case 2:
		t = NewScope(b, a)
	default:
		t = ParseScope(render(b))
	}
	u := s.Union(t)
	verifAssert(u.String() == text, "union-adding-nothing-keeps-text")
	verifAssert(u.Equal(s), "union-adding-nothing-is-equal")
	verifCover("end")
}

func init() {
	verifRegister("VerifC09_PrintParse", VerifC09_PrintParse)
	verifRegister("VerifC09_UnionText", VerifC09_UnionText)
}
