package ociauth

// C19: credential lookup from config files is deterministic with fixed precedence.

import (
	"encoding/base64"
	"encoding/json"
	"errors"
	"fmt"
	"strings"
)

var c19otherErr = errors.New("helper failed")

// c19keys builds up to n auths keys over the hosts h and g in explicit and URL forms.
func c19key(i int) string {
	forms := []string{"h", "g", "http://h", "https://h/v1/", "https://g", "h//x", "http://g/p"}
	return forms[verifChoose(fmt.Sprintf("key%d", i), len(forms))]
}

func c19urlHost(k string) string {
	k = strings.TrimPrefix(strings.TrimPrefix(k, "http://"), "https://")
	h, _, _ := strings.Cut(k, "/")
	return h
}

type c19entry struct {
	key       string
	user      string
	pass      string
	idToken   string
	regToken  string
}

func c19config(n int) ([]c19entry, []byte) {
	var es []c19entry
	auths := map[string]authConfig{}
	for i := 0; i < n; i++ {
		e := c19entry{key: c19key(i), user: fmt.Sprintf("user%d", i), pass: fmt.Sprintf("pass%d", i), regToken: fmt.Sprintf("rt%d", i)}
		if verifBool("hasIdentityToken") {
			e.idToken = fmt.Sprintf("id%d", i)
			if verifBool("noUser") {
				e.user, e.pass = "", ""
			}
		}
		dup := false
		for _, x := range es {
			if x.key == e.key {
				dup = true
			}
		}
		if dup {
			continue // JSON object keys are unique in the document model
		}
		es = append(es, e)
		auths[e.key] = authConfig{Username: e.user, Password: e.pass, IdentityToken: e.idToken, RegistryToken: e.regToken}
	}
	data, err := json.Marshal(configData{Auths: auths})
	if err != nil {
		panic(err)
	}
	return es, data
}

type c19result struct {
	entry ConfigEntry
	ok    bool
	msg   string // error text
}

func c19lookup(data []byte, host string) c19result {
	verifMapOrder(true)
	f, err := decodeConfigFile(data)
	verifMapOrder(false)
	if err != nil {
		return c19result{msg: err.Error()}
	}
	c := &ConfigFile{data: f, runner: func(helper, server string) (ConfigEntry, error) { return ConfigEntry{}, c19otherErr }}
	e, err := c.EntryForRegistry(host)
	msg := ""
	if err != nil {
		msg = err.Error()
	}
	return c19result{entry: e, ok: err == nil, msg: msg}
}

// VerifC19_Determinism: two decodings of the same document (independent map iteration
// orders) answer every lookup identically, and the answer follows the precedence rules.
func VerifC19_Determinism() {
	n := verifParam("keys", 2)
	es, data := c19config(n)
	hosts := []string{"h", "g", "other"}
	host := hosts[verifChoose("lookup", len(hosts))]
	r1 := c19lookup(data, host)
	r2 := c19lookup(data, host)
	// (natively the map order cannot be chosen: sample many decodings)
	for i := 0; i < verifRepeatNative(200); i++ {
		if i > 0 {
			r2 = c19lookup(data, host)
		}
		verifAssert(r1.ok == r2.ok, "same-success-for-any-map-order")
		if r1.ok && r2.ok {
			verifAssert(r1.entry == r2.entry, "same-entry-for-any-map-order")
		}
		verifAssert(r1.msg == r2.msg, "same-error-for-any-map-order")
	}
	// precedence oracle
	var explicit *c19entry
	var derived []*c19entry
	for i := range es {
		e := &es[i]
		if e.key == host {
			explicit = e
		} else if strings.Contains(e.key, "//") && c19urlHost(e.key) == host {
			derived = append(derived, e)
		}
	}
	var sel *c19entry
	switch {
	case explicit != nil:
		sel = explicit
	case len(derived) == 1:
		sel = derived[0]
	case len(derived) > 1:
		verifAssert(!r1.ok, "several-url-keys-for-one-host-fail")
		verifCover("ambiguous")
		return
	}
	if sel == nil {
		verifAssert(r1.ok && r1.entry == (ConfigEntry{}), "unknown-host-gives-zero-entry")
		verifCover("unknown")
		return
	}
	if sel.idToken != "" && sel.user != "" {
		verifAssert(!r1.ok, "identitytoken-with-username-is-ambiguous")
		return
	}
	want := ConfigEntry{RefreshToken: sel.idToken, AccessToken: sel.regToken, Username: sel.user, Password: sel.pass}
	verifAssert(r1.ok && r1.entry == want, "explicit-wins-over-derived-and-single-derived-is-used")
	verifCover("selected")
}

// VerifC19_Helpers: per-host helper > default store > auths table; a missing default
// helper falls back to the table.
func VerifC19_Helpers() {
	hasPerHost := verifBool("hasPerHostHelper")
	hasStore := verifBool("hasCredsStore")
	hasAuth := verifBool("hasAuthsEntry")
	// helper behaviours: 0 creds, 1 not found (zero entry), 2 missing binary, 3 other error
	perHostOutcome := verifChoose("perHostOutcome", 4)
	storeOutcome := verifChoose("storeOutcome", 4)
	cfg := configData{Auths: map[string]authConfig{}}
	// a per-host entry may also name no helper at all (""), which pins the host to the
	// auths table regardless of the default store
	emptyPerHost := !hasPerHost && verifBool("perHostEntryWithEmptyName")
	if hasPerHost {
		cfg.CredHelpers = map[string]string{"h": "perhost"}
	} else if emptyPerHost {
		cfg.CredHelpers = map[string]string{"h": ""}
	}
	if hasStore {
		cfg.CredsStore = "store"
	}
	if hasAuth {
		cfg.Auths["h"] = authConfig{Username: "tableuser", Password: "tablepass"}
	}
	data, err := json.Marshal(cfg)
	if err != nil {
		panic(err)
	}
	f, err := decodeConfigFile(data)
	verifAssert(err == nil, "decodes")
	var calls []string
	outcome := func(k int, who string) (ConfigEntry, error) {
		switch k {
		case 0:
			return ConfigEntry{Username: who, Password: who + "pw"}, nil
		case 1:
			return ConfigEntry{}, nil
		case 2:
			return ConfigEntry{}, fmt.Errorf("%w: no such binary", ErrHelperNotFound)
		}
		return ConfigEntry{}, c19otherErr
	}
	c := &ConfigFile{data: f, runner: func(helper, server string) (ConfigEntry, error) {
		calls = append(calls, helper)
		verifAssert(server == "h", "helper-gets-the-host")
		if helper == "perhost" {
			return outcome(perHostOutcome, "perhost")
		}
		return outcome(storeOutcome, "store")
	}}
	e, err := c.EntryForRegistry("h")
	table := ConfigEntry{}
	if hasAuth {
		table = ConfigEntry{Username: "tableuser", Password: "tablepass"}
	}
	switch {
	case emptyPerHost:
		verifAssert(len(calls) == 0 && err == nil && e == table, "empty-per-host-helper-pins-the-host-to-the-table")
		verifCover("pinned")
	case hasPerHost:
		// the per-host helper's answer is final, whatever it is
		verifAssert(len(calls) == 1 && calls[0] == "perhost", "per-host-helper-consulted-alone")
		we, werr := outcome(perHostOutcome, "perhost")
		verifAssert(e == we && (err == nil) == (werr == nil), "per-host-helper-wins")
		if werr != nil {
			verifAssert(errors.Is(err, c19otherErr) == errors.Is(werr, c19otherErr) && errors.Is(err, ErrHelperNotFound) == errors.Is(werr, ErrHelperNotFound), "per-host-helper-error-kept")
		}
		verifCover("perhost")
	case hasStore:
		verifAssert(len(calls) == 1 && calls[0] == "store", "default-store-consulted")
		if storeOutcome == 2 {
			verifAssert(err == nil && e == table, "missing-default-helper-falls-back-to-table")
			verifCover("fallback")
		} else {
			we, werr := outcome(storeOutcome, "store")
			verifAssert(e == we && (err == nil) == (werr == nil), "default-store-wins-over-table")
			verifCover("store")
		}
	default:
		verifAssert(len(calls) == 0 && err == nil && e == table, "table-used-without-helpers")
		verifCover("table")
	}
}

// VerifC19_DecodeAuth: the base64 auth field decodes to exactly the encoded user and password.
func VerifC19_DecodeAuth() {
	k := verifParam("maxlen", 2)
	u := verifString("user", k)
	p := verifString("pass", k)
	verifAssume(u != "" && !strings.Contains(u, ":"))
	verifAssume(!strings.HasPrefix(p, "\x00") && !strings.HasSuffix(p, "\x00"))
	enc := base64.StdEncoding.EncodeToString([]byte(u + ":" + p))
	gu, gp, err := decodeAuth(enc)
	verifAssert(err == nil, "decodes")
	verifAssert(err != nil || (gu == u && gp == p), "exact-user-and-password")
	verifCover("end")
}

func init() {
	verifRegister("VerifC19_Determinism", VerifC19_Determinism)
	verifRegister("VerifC19_Helpers", VerifC19_Helpers)
	verifRegister("VerifC19_DecodeAuth", VerifC19_DecodeAuth)
}
