package ociauth

// C10 / C11 (flow part): the auth transport against scripted registries and token
// servers. One fake network (an http.RoundTripper) serves two registry hosts and their
// token realms, logs every outgoing request and checks the token / credential rules at
// the moment a request is forwarded.

import (
	"context"
	"errors"
	"fmt"
	"io"
	"net/http"
	"net/url"
	"strings"
	"time"

	"cuelabs.dev/go/oci/ociregistry"
)

// ---- scope lattice

var c10scopes = []string{
	"",
	"repository:a:pull",
	"repository:a:pull,push",
	"repository:a:pull repository:b:pull",
}

func c10scope(name string) (Scope, string) {
	s := c10scopes[verifChoose(name, len(c10scopes))]
	return ParseScope(s), s
}

// ---- fake network

type c10token struct {
	text    string
	host    string // registry host it was issued for
	scope   Scope  // scope that was granted (= requested)
	expires time.Time
	call    int // RoundTrip call index in which it was issued
	answersChallenge bool // issued after a challenge seen in that call
}

type c10creds struct {
	user, pass, refresh, access string
}

type c10host struct {
	name      string
	realm     string // token realm host
	creds     c10creds
	basicOnly bool // challenges with Basic instead of Bearer
	// noUsableChallenge: the registry answers 401 without a challenge the transport can
	// use: 1 = no Www-Authenticate header at all, 2 = an unknown scheme only
	noUsableChallenge int
	// the scope a request must carry on this host (fixed per run)
	need      Scope
	chalText  string // scope text put in Bearer challenges
	challenged      bool // a Bearer challenge naming the realm was sent
	basicChallenged bool
}

type c10net struct {
	hosts   map[string]*c10host // registry hosts
	realms  map[string]*c10host // realm host -> registry host it belongs to
	tokens  []*c10token
	call    int // current RoundTrip call index
	regReqs int // registry requests in the current call
	tokReqs int // token requests in the current call
	// scripted token-server behaviour for the current call
	tokMode    int
	expiresIn  int
	rejectFresh bool
	lastChallengeScope Scope
	required   Scope
	want       Scope
	freshOK    bool
	bodies     []*c10body
	challengedThisCall bool
	haveCached         bool // a cached, unexpired token covering the required scope exists at call start
	firstWasCached     bool
}

type c10body struct {
	io.Reader
	closed int
}

func (b *c10body) Close() error { b.closed++; return nil }

func c10resp(req *http.Request, status int, hdr http.Header, body string) *http.Response {
	if hdr == nil {
		hdr = http.Header{}
	}
	return &http.Response{StatusCode: status, Status: fmt.Sprintf("%d %s", status, http.StatusText(status)), Header: hdr,
		Body: io.NopCloser(strings.NewReader(body)), ContentLength: int64(len(body)), Request: req}
}

func (n *c10net) findToken(text string) *c10token {
	for _, t := range n.tokens {
		if t.text == text {
			return t
		}
	}
	return nil
}

// secretsOf lists which hosts' secrets appear in a request (confinement log).
func (n *c10net) checkConfinement(req *http.Request, dest string, destIsRealmOf *c10host, destIsRegistry *c10host) {
	auth := req.Header.Get("Authorization")
	user, pass, isBasic := req.BasicAuth()
	var form url.Values
	if req.Method == "POST" && req.Body != nil {
		data, _ := io.ReadAll(req.Body)
		form, _ = url.ParseQuery(string(data))
	}
	for _, h := range n.hosts {
		// password
		if isBasic && h.creds.pass != "" && pass == h.creds.pass {
			okRealm := destIsRealmOf == h && h.challenged
			okBasic := destIsRegistry == h && h.basicChallenged
			verifAssert(okRealm || okBasic, "password-only-to-own-challenged-realm-or-basic-registry")
			verifAssert(user == h.creds.user, "password-with-its-user")
		}
		// refresh token
		if h.creds.refresh != "" {
			inForm := form != nil && form.Get("refresh_token") == h.creds.refresh
			inAuth := strings.Contains(auth, h.creds.refresh)
			if inForm || inAuth {
				verifAssert(destIsRealmOf == h && h.challenged, "refresh-token-only-to-own-realm")
			}
		}
		// access tokens (configured or issued)
		if strings.HasPrefix(auth, "Bearer ") {
			t := strings.TrimPrefix(auth, "Bearer ")
			if h.creds.access != "" && t == h.creds.access {
				verifAssert(destIsRegistry == h, "configured-token-only-to-its-registry")
			}
			if it := n.findToken(t); it != nil && it.host == h.name {
				verifAssert(destIsRegistry == h, "issued-token-only-to-its-registry")
			}
		}
	}
}

func (n *c10net) RoundTrip(req *http.Request) (*http.Response, error) {
	defer func() {
		if req.Body != nil {
			req.Body.Close()
		}
	}()
	host := req.URL.Host
	if h, ok := n.realms[host]; ok {
		n.tokReqs++
		n.checkConfinement(req, host, h, nil)
		return n.tokenServer(req, h), nil
	}
	h := n.hosts[host]
	if h == nil {
		return c10resp(req, 502, nil, "no such host"), nil
	}
	n.regReqs++
	verifAssert(n.regReqs <= 2, "at-most-two-registry-attempts-per-call")
	if n.regReqs == 1 && n.haveCached && !h.basicOnly && h.creds.access == "" {
		// a cached sufficient token is used straight away: no token request came first
		t := n.findToken(strings.TrimPrefix(req.Header.Get("Authorization"), "Bearer "))
		verifAssert(n.tokReqs == 0 && t != nil && t.call < n.call, "cached-sufficient-token-used-without-a-token-request")
		n.firstWasCached = true
	}
	n.checkConfinement(req, host, nil, h)
	auth := req.Header.Get("Authorization")
	now := verifNow()
	if _, _, isBasic := req.BasicAuth(); isBasic {
		verifAssert(h.basicChallenged, "no-basic-auth-before-a-basic-challenge")
	}
	if h.noUsableChallenge != 0 {
		// always unauthorized, and never says how to authenticate
		hdr := http.Header{}
		if h.noUsableChallenge == 2 {
			hdr.Set("Www-Authenticate", `Negotiate`)
		}
		return c10resp(req, 401, hdr, ""), nil
	}
	if h.basicOnly {
		u, p, ok := req.BasicAuth()
		if ok && u == h.creds.user && p == h.creds.pass && u != "" {
			return c10resp(req, 200, nil, "ok"), nil
		}
		verifAssert(!ok || h.basicChallenged, "no-basic-auth-before-a-basic-challenge")
		h.basicChallenged = true
		return c10resp(req, 401, http.Header{"Www-Authenticate": {`Basic realm="reg"`}}, ""), nil
	}
	if strings.HasPrefix(auth, "Bearer ") {
		text := strings.TrimPrefix(auth, "Bearer ")
		if h.creds.access != "" && text == h.creds.access {
			return c10resp(req, 200, nil, "ok"), nil
		}
		tok := n.findToken(text)
		verifAssert(tok != nil && tok.host == h.name, "bearer-token-was-issued-for-this-host")
		if tok != nil {
			verifAssert(!now.After(tok.expires), "bearer-token-unexpired-when-sent")
			if tok.call == n.call && tok.answersChallenge {
				verifAssert(tok.scope.Contains(n.lastChallengeScope), "fresh-token-covers-the-challenge-scope")
			} else {
				verifAssert(tok.scope.Contains(n.required), "cached-token-covers-the-required-scope")
			}
			if tok.scope.Contains(h.need) && !(n.rejectFresh && tok.call == n.call) {
				return c10resp(req, 200, nil, "ok"), nil
			}
		}
	} else {
		verifAssert(auth == "", "no-other-authorization-scheme-to-a-bearer-registry")
	}
	h.challenged = true
	n.challengedThisCall = true
	n.lastChallengeScope = ParseScope(h.chalText)
	chal := fmt.Sprintf(`Bearer realm="https://%s/token",service="svc",scope="%s"`, h.realm, h.chalText)
	return c10resp(req, 401, http.Header{"Www-Authenticate": {chal}}, ""), nil
}

func (n *c10net) tokenServer(req *http.Request, h *c10host) *http.Response {
	var scopeText string
	if req.Method == "POST" {
		// the body was consumed by checkConfinement; re-read is not possible, so the
		// form was parsed there: parse again from GetBody when available
		if req.GetBody != nil {
			b, _ := req.GetBody()
			data, _ := io.ReadAll(b)
			form, _ := url.ParseQuery(string(data))
			scopeText = form.Get("scope")
		}
		if n.tokMode == 2 {
			return c10resp(req, 404, nil, "")
		}
	} else {
		scopeText = strings.Join(req.URL.Query()["scope"], " ")
	}
	requested := ParseScope(scopeText)
	// the request asks for challenge ∪ required ∪ wanted on the first attempt, or the
	// challenge scope alone on the retry after a 401
	full := n.lastChallengeScope.Union(n.want.Union(n.required))
	first := n.tokReqs == 1 || (n.tokMode == 2 && n.tokReqs == 2)
	if !n.challengedThisCall {
		// pre-emptive acquisition with a refresh token (no challenge in this call): the
		// request must at least cover what the call requires
		verifAssert(requested.Contains(n.required), "pre-emptive-token-request-covers-required-scope")
	} else if first {
		verifAssert(requested.Equal(full), "token-request-scope-is-challenge-plus-required-plus-wanted")
		if n.lastChallengeScope.Contains(n.want.Union(n.required)) {
			verifAssert(scopeText == h.chalText, "challenge-scope-text-kept-when-nothing-added")
		}
	} else {
		verifAssert(requested.Equal(n.lastChallengeScope) || requested.Equal(full), "retry-asks-for-the-challenge-scope")
	}
	switch n.tokMode {
	case 1:
		// refuses requests wider than the challenge scope
		if !n.lastChallengeScope.Contains(requested) {
			return c10resp(req, 401, nil, "")
		}
	case 3:
		return c10resp(req, 500, nil, "boom")
	case 4:
		return c10resp(req, 200, nil, "{")
	case 5:
		return c10resp(req, 200, nil, `{"expires_in":60}`)
	}
	text := fmt.Sprintf("tok-%s-%d", h.name, len(n.tokens))
	ttl := n.expiresIn
	if ttl == 0 {
		ttl = 60
	}
	n.tokens = append(n.tokens, &c10token{text: text, host: h.name, scope: requested, expires: verifNow().Add(time.Duration(ttl) * time.Second), call: n.call, answersChallenge: n.challengedThisCall})
	body := fmt.Sprintf(`{"token":%q}`, text)
	if n.expiresIn != 0 {
		body = fmt.Sprintf(`{"token":%q,"expires_in":%d}`, text, n.expiresIn)
	}
	return c10resp(req, 200, nil, body)
}

type c10config struct {
	n       *c10net
	failFor string
}

var c10configErr = errors.New("config lookup failed")

func (c c10config) EntryForRegistry(host string) (ConfigEntry, error) {
	if host == c.failFor {
		return ConfigEntry{}, c10configErr
	}
	h := c.n.hosts[host]
	if h == nil {
		return ConfigEntry{}, nil
	}
	return ConfigEntry{RefreshToken: h.creds.refresh, AccessToken: h.creds.access, Username: h.creds.user, Password: h.creds.pass}, nil
}

func c10newNet() *c10net {
	n := &c10net{hosts: map[string]*c10host{}, realms: map[string]*c10host{}}
	mk := func(name, realm string, symbolic bool) {
		h := &c10host{name: name, realm: realm}
		credKind := 1
		if symbolic {
			credKind = verifChoose(name+".creds", 4)
		}
		switch credKind {
		case 1:
			h.creds = c10creds{user: "user-" + name, pass: "pass-" + name}
		case 2:
			h.creds = c10creds{refresh: "refresh-" + name}
		case 3:
			h.creds = c10creds{access: "static-" + name}
		}
		needIdx := 1
		// plainA=1 (three-call histories): host A is a Bearer registry needing scope 1 whose
		// challenge names exactly that scope; only its credentials stay symbolic
		plain := verifParam("plainA", 0) == 1
		if symbolic && !plain {
			switch verifChoose(name+".challengeKind", 4) {
			case 1:
				h.basicOnly = h.creds.user != ""
			case 2:
				h.noUsableChallenge = 1
			case 3:
				h.noUsableChallenge = 2
			}
			needIdx = 1 + verifChoose(name+".need", 2)
		}
		h.need = ParseScope(c10scopes[needIdx])
		h.chalText = c10scopes[needIdx]
		if symbolic && !plain && verifBool(name+".challengeWider") {
			h.chalText = c10scopes[3]
		}
		n.hosts[name] = h
		n.realms[realm] = h
	}
	// host A is fully symbolic; host B is a fixed password-protected bearer registry on the
	// same host name but another port (per-registry state is keyed by host:port)
	mk("rega.example", "toka.example", true)
	mk("rega.example:5001", "tokb.example", false)
	return n
}

// VerifC10_Flow: a sequence of calls over two hosts.
func VerifC10_Flow() {
	verifManualClock()
	n := c10newNet()
	cfg := c10config{n: n}
	if verifParam("configfail", 0) == 1 && verifBool("configFails") {
		cfg.failFor = "rega.example:5001"
	}
	tr := NewStdTransport(StdTransportParams{Config: cfg, Transport: n})
	calls := verifParam("calls", 2)
	for i := 0; i < calls; i++ {
		n.call = i
		n.regReqs, n.tokReqs = 0, 0
		n.challengedThisCall, n.firstWasCached = false, false
		hostName := []string{"rega.example", "rega.example:5001"}[verifChoose("host", 2)]
		h := n.hosts[hostName]
		if verifParam("trim", 0) >= 1 {
			// reduced menus for multi-call histories (trim=2: the token server always grants)
			n.required = ParseScope(c10scopes[1+verifChoose("required", 2)])
			n.want = ParseScope("")
			n.tokMode = 0
			if verifParam("trim", 0) == 1 {
				n.tokMode = verifChoose("tokenServer", 2)
			}
			n.expiresIn = []int{1, 3}[verifChoose("expiresIn", 2)]
			n.rejectFresh = false
		} else {
			n.required, _ = c10scope("required")
			n.want, _ = c10scope("want")
			n.tokMode = verifChoose("tokenServer", 6)
			n.expiresIn = []int{0, 1, 3}[verifChoose("expiresIn", 3)]
			n.rejectFresh = verifBool("rejectFresh")
		}
		// does the transport hold a cached, unexpired, sufficient token for this host?
		now := verifNow()
		haveCached := false
		for _, t := range n.tokens {
			if t.host == hostName && t.scope.Contains(n.required) && !now.Add(time.Second).After(t.expires) {
				haveCached = true
			}
		}
		n.haveCached = haveCached
		ctx := ContextWithRequestInfo(context.Background(), RequestInfo{RequiredScope: n.required})
		ctx = ContextWithScope(ctx, n.want)
		var body *c10body
		req, err := http.NewRequestWithContext(ctx, "GET", "https://"+hostName+"/v2/", nil)
		verifAssert(err == nil, "request")
		withBody := 0
		if verifParam("bodies", 0) == 1 {
			withBody = verifChoose("body", 3)
		}
		if withBody > 0 {
			body = &c10body{Reader: strings.NewReader("payload")}
			req.Body = body
			req.Method = "PUT"
			if withBody == 2 {
				req.GetBody = func() (io.ReadCloser, error) {
					b := &c10body{Reader: strings.NewReader("payload")}
					n.bodies = append(n.bodies, b)
					return b, nil
				}
			}
		}
		req.Header.Set("X-Caller", "unchanged")
		resp, err := tr.RoundTrip(req)
		// the caller's request is not modified
		verifAssert(req.Header.Get("Authorization") == "" && len(req.Header) == 1 && req.Header.Get("X-Caller") == "unchanged", "callers-request-unmodified")
		if body != nil {
			verifAssert(body.closed >= 1, "request-body-closed-on-every-path")
		}
		for _, b := range n.bodies {
			verifAssert(b.closed >= 1, "rewound-request-body-closed")
		}
		n.bodies = nil
		if hostName == cfg.failFor {
			verifAssert(err != nil && n.regReqs == 0 && n.tokReqs == 0, "config-failure-sends-nothing")
			continue
		}
		if haveCached && !h.basicOnly && h.creds.access == "" {
			verifAssert(n.firstWasCached, "cached-sufficient-token-is-used")
			if err == nil && !n.challengedThisCall {
				verifAssert(n.tokReqs == 0 && n.regReqs == 1, "cached-sufficient-token-means-no-extra-round-trips")
			}
			verifCover("cache-hit")
		}
		if err == nil {
			if resp.StatusCode == 401 {
				verifCover("still-unauthorized")
			}
			if n.rejectFresh && resp.StatusCode == 403 {
				var werr ociregistry.WireErrors
				_ = werr
				verifCover("fresh-token-rejected-is-403")
			}
			// a 401 answered to a freshly issued token is surfaced as 403
			freshIssued := false
			for _, t := range n.tokens {
				freshIssued = freshIssued || (t.call == i && t.host == hostName)
			}
			if freshIssued && n.rejectFresh && n.regReqs == 2 {
				verifAssert(resp.StatusCode == 403, "401-after-fresh-token-becomes-403")
			}
			resp.Body.Close()
		}
		verifAdvanceClock("elapsed", 4)
	}
	verifCover("end")
}

func init() {
	verifRegister("VerifC10_Flow", VerifC10_Flow)
}
